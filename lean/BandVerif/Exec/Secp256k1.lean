/-
secp256k1 over `Nat` (affine points, `none` = infinity): add, double, scalar multiplication, public-key
recovery (ecrecover), decompression.  Executable reference for the drivers (C12 signatures, C03/C04 keys).
Core-only.
-/
namespace BandVerif.Secp

def p : Nat := 0xFFFFFFFFFFFFFFFFFFFFFFFFFFFFFFFFFFFFFFFFFFFFFFFFFFFFFFFEFFFFFC2F
def n : Nat := 0xFFFFFFFFFFFFFFFFFFFFFFFFFFFFFFFEBAAEDCE6AF48A03BBFD25E8CD0364141
def gx : Nat := 0x79BE667EF9DCBBAC55A06295CE870B07029BFCDB2DCE28D959F2815B16F81798
def gy : Nat := 0x483ADA7726A3C4655DA4FBFC0E1108A8FD17B448A68554199C47D08FFB10D4B8

abbrev Point := Option (Nat × Nat)
def G : Point := some (gx, gy)

/-- b^e mod m by square-and-multiply on the bits of e (fuel = bit length bound) -/
def powMod (b e m : Nat) : Nat := Id.run do
  let mut r := 1 % m
  let mut base := b % m
  let mut ex := e
  for _ in [0:512] do
    if ex = 0 then break
    if ex % 2 = 1 then r := r * base % m
    base := base * base % m
    ex := ex / 2
  return r

def invMod (a m : Nat) : Nat := powMod a (m - 2) m
def subMod (a b m : Nat) : Nat := (a + m - b % m) % m

def double (P : Point) : Point :=
  match P with
  | none => none
  | some (x, y) =>
    if y = 0 then none else
    let l := 3 * x % p * x % p * invMod (2 * y % p) p % p
    let x3 := subMod (l * l % p) (2 * x % p) p
    let y3 := subMod (l * subMod x x3 p % p) y p
    some (x3, y3)

def add (P Q : Point) : Point :=
  match P, Q with
  | none, q => q
  | pp, none => pp
  | some (x1, y1), some (x2, y2) =>
    if x1 = x2 then (if y1 = y2 then double (some (x1, y1)) else none) else
    let l := subMod y2 y1 p * invMod (subMod x2 x1 p) p % p
    let x3 := subMod (subMod (l * l % p) x1 p) x2 p
    let y3 := subMod (l * subMod x1 x3 p % p) y1 p
    some (x3, y3)

def neg (P : Point) : Point := P.map fun (x, y) => (x, (p - y) % p)

/-- Jacobian coordinates (X, Y, Z), Z = 0 for infinity: x = X/Z², y = Y/Z³ -/
abbrev JPoint := Nat × Nat × Nat

def jdouble (P : JPoint) : JPoint :=
  let (x, y, z) := P
  if z = 0 ∨ y = 0 then (0, 1, 0) else
  let ysq := y * y % p
  let s := 4 * x % p * ysq % p
  let m := 3 * x % p * x % p
  let x3 := subMod (m * m % p) (2 * s % p) p
  let y3 := subMod (m * subMod s x3 p % p) (8 * ysq % p * ysq % p) p
  let z3 := 2 * y % p * z % p
  (x3, y3, z3)

def jadd (P Q : JPoint) : JPoint :=
  let (x1, y1, z1) := P
  let (x2, y2, z2) := Q
  if z1 = 0 then Q else if z2 = 0 then P else
  let z1z1 := z1 * z1 % p
  let z2z2 := z2 * z2 % p
  let u1 := x1 * z2z2 % p
  let u2 := x2 * z1z1 % p
  let s1 := y1 * z2 % p * z2z2 % p
  let s2 := y2 * z1 % p * z1z1 % p
  if u1 = u2 then (if s1 = s2 then jdouble P else (0, 1, 0)) else
  let h := subMod u2 u1 p
  let r := subMod s2 s1 p
  let hh := h * h % p
  let hhh := hh * h % p
  let v := u1 * hh % p
  let x3 := subMod (subMod (r * r % p) hhh p) (2 * v % p) p
  let y3 := subMod (r * subMod v x3 p % p) (s1 * hhh % p) p
  let z3 := h * z1 % p * z2 % p
  (x3, y3, z3)

def toAffine (P : JPoint) : Point :=
  let (x, y, z) := P
  if z = 0 then none else
  let zi := invMod z p
  let zi2 := zi * zi % p
  some (x * zi2 % p, y * zi2 % p * zi % p)

def mul (k : Nat) (P : Point) : Point :=
  match P with
  | none => none
  | some (px, py) => Id.run do
    let mut r : JPoint := (0, 1, 0)
    let mut q : JPoint := (px, py, 1)
    let mut e := k % n
    for _ in [0:256] do
      if e = 0 then break
      if e % 2 = 1 then r := jadd r q
      q := jdouble q
      e := e / 2
    return toAffine r

def onCurve (P : Point) : Bool :=
  match P with
  | none => true
  | some (x, y) => y * y % p == (x * x % p * x + 7) % p

/-- the point with abscissa x and the given parity of y, if x is on the curve -/
def liftX (x : Nat) (odd : Bool) : Point :=
  if x ≥ p then none else
  let y2 := (x * x % p * x + 7) % p
  let y := powMod y2 ((p + 1) / 4) p
  if y * y % p ≠ y2 then none else
  some (x, if (y % 2 == 1) == odd then y else (p - y) % p)

/-- ecrecover: the public key Q with r = (z/s·G + r/s·Q).x, for recovery id v ∈ {0,1} -/
def recover (z r s v : Nat) : Point :=
  if r = 0 ∨ r ≥ n ∨ s = 0 ∨ s ≥ n then none else
  match liftX r (v % 2 == 1) with
  | none => none
  | some R =>
    let rinv := invMod r n
    add (mul (s * rinv % n) (some R)) (neg (mul (z % n * rinv % n) G))

def be32 (x : Nat) : List Nat := (List.range 32).map fun i => (x >>> (8 * (31 - i))) % 256
def fromBytes (l : List Nat) : Nat := l.foldl (fun a b => a * 256 + b) 0

/-- 33-byte compressed encoding -/
def compress (P : Point) : List Nat :=
  match P with
  | none => []
  | some (x, y) => (if y % 2 = 0 then 2 else 3) :: be32 x

def decompress (b : List Nat) : Point :=
  match b with
  | t :: rest => if rest.length = 32 ∧ (t = 2 ∨ t = 3) then liftX (fromBytes rest) (t == 3) else none
  | [] => none

/-- `secp256k1.ParsePubKey` (dcrd): SEC1 compressed (02/03‖X), uncompressed (04‖X‖Y) and hybrid (06/07‖X‖Y, the tag
    carrying the parity of Y); the coordinates must be field elements on the curve -/
def parseSec1 (b : List Nat) : Point :=
  match b with
  | t :: rest =>
    if rest.length = 32 then (if t = 2 ∨ t = 3 then liftX (fromBytes rest) (t == 3) else none)
    else if rest.length = 64 ∧ (t = 4 ∨ t = 6 ∨ t = 7) then
      let x := fromBytes (rest.take 32)
      let y := fromBytes (rest.drop 32)
      if x ≥ p ∨ y ≥ p then none
      else if y * y % p ≠ (x * x % p * x + 7) % p then none
      else if (t = 6 ∨ t = 7) ∧ (y % 2 == 1) != (t == 7) then none
      else some (x, y)
    else none
  | [] => none

end BandVerif.Secp
