/- Driver for C19: yoda request handling vs the model; chain validation outcome read from the real keeper. -/
import BandVerif.Common.Driver
import BandVerif.Model.Yoda

open Lean BandVerif BandVerif.Yoda

def step (_ : Unit) (j : Json) : Except String (Unit × Json × List Fired) := do
  let op ← jstr j "op"
  if op != "request" then throw s!"unknown op {op}"
  let out := (j.getObjVal? "out").toOption.getD Json.null
  let mut fired : List Fired := []
  let selected ← jbool j "selected"
  let rawsJ ← jarr j "raws"
  let raws ← rawsJ.mapM fun r => do
    pure (({ eid := ← jnat r "eid", dsid := ← jnat r "ds", calldata := ← jstr r "calldata" } : RawReq),
          (← jbool r "hashOk"), (← jbool r "loadable"), (← jstr r "exec"), (← jnat r "code"), (← jstr r "output"))
  -- the environment of this request, as the harness scripted it
  let env : Env :=
    { hashOf := fun d => match raws.find? (fun (r, _, _, _, _, _) => r.dsid == d) with
        | some (_, hashOk, _, _, _, _) => if hashOk then some s!"ds{d}" else none
        | none => none
      loadable := fun h => match raws.find? (fun (r, _, _, _, _, _) => s!"ds{r.dsid}" == h) with
        | some (_, _, l, _, _, _) => l
        | none => false
      exec := fun q => match raws.find? (fun (r, _, _, _, _, _) => r.calldata == q.calldata) with
        | some (_, _, _, ex, code, output) => if ex == "error" then .error else .ok code output
        | none => .error }
  let me := 1
  let vals := if selected then [0, 1] else [0]
  let expected := handleRequest env me vals (raws.map (·.1))
  -- output data is compared as hex; the model's FAIL_TO_LOAD marker is text
  let hexOf (s : String) : String := String.ofList (s.toUTF8.toList.flatMap fun b =>
    let d := "0123456789abcdef".toList; [d.getD (b.toNat / 16) '0', d.getD (b.toNat % 16) '0'])
  let repJson (l : List RawRep) : Json :=
    let sorted := l.toArray.qsort (fun a b => a.eid < b.eid) |>.toList
    jl (sorted.map fun r => jl [jn r.eid, jn r.code, js (if r.data == failToLoad then hexOf r.data else r.data)])
  let mout : Json := match expected with
    | none => mkObj [("crashed", jb false), ("reports", jl [])]
    | some reps => mkObj [("crashed", jb false), ("reports", jl [mkObj [("raws", repJson reps), ("validateBasic", js ""), ("checkValid", js ""), ("validatorIsMe", jb true)]])]
  -- ===== monitors =====
  let crashed := (jbool out "crashed").toOption.getD false
  let ireports := (jarr out "reports").toOption.getD []
  let metaOk := raws.all fun (_, hashOk, _, _, _, _) => hashOk
  if crashed then
    fired := fired ++ [{ name := "yoda_crashed", detail := mkObj [("panic", (out.getObjVal? "panic").toOption.getD Json.null), ("fileLens", jl (rawsJ.map fun r => (r.getObjVal? "fileLen").toOption.getD Json.null))] }]
  else
    if (jbool out "hung").toOption.getD false then
      fired := fired ++ [{ name := "request_handler_never_finished", detail := Json.null }]
    else if selected && metaOk && ireports.isEmpty then
      fired := fired ++ [{ name := "selected_request_not_reported", detail := Json.null }]
    if !selected && !ireports.isEmpty then
      fired := fired ++ [{ name := "report_for_request_not_selecting_this_validator", detail := Json.null }]
    if ireports.length > 1 then
      fired := fired ++ [{ name := "request_reported_more_than_once", detail := jn ireports.length }]
    for rep in ireports do
      let vb := (jstr rep "validateBasic").toOption.getD "?"
      let cv := (jstr rep "checkValid").toOption.getD "?"
      if vb != "" || cv != "" then
        fired := fired ++ [{ name := "report_rejected_by_chain_validation", detail := mkObj [("validateBasic", js vb), ("checkValid", js cv)] }]
      let iraws := (jarr rep "raws").toOption.getD []
      if iraws.length ≠ raws.length then
        fired := fired ++ [{ name := "raw_report_count_ne_raw_request_count", detail := mkObj [("reports", jn iraws.length), ("requests", jn raws.length)] }]
      match expected with
      | some reps =>
        if !jsonEq (jl iraws) (repJson reps) then
          fired := fired ++ [{ name := "raw_report_not_executor_result_or_255", detail := mkObj [("got", jl iraws), ("want", repJson reps)] }]
      | none => pure ()
  -- the crash observation replaces the out comparison
  let mout := if crashed then out else mout
  pure ((), mout, fired)

def main : IO UInt32 := runDriver { init := fun _ => (), step := step }
