/- Driver for C17: tunnel deposits / activation; full-state comparison + backing monitors. -/
import BandVerif.Common.Driver
import BandVerif.Model.TunnelDeposit
import BandVerif.Generated.Errors

open Lean BandVerif BandVerif.TunnelDeposit

def errCode : Err → String
  | .ok => ""
  | .tunnelNotFound => Generated.Err.tunnel_ErrTunnelNotFound
  | .invalidDenom => Generated.Err.tunnel_ErrInvalidDepositDenom
  | .insufficientFunds => "sdk/5"
  | .depositNotFound => Generated.Err.tunnel_ErrDepositNotFound
  | .insufficientDeposit => Generated.Err.tunnel_ErrInsufficientDeposit
  | .invalidCreator => Generated.Err.tunnel_ErrInvalidTunnelCreator
  | .alreadyActive => Generated.Err.tunnel_ErrAlreadyActive
  | .alreadyInactive => Generated.Err.tunnel_ErrAlreadyInactive

def coinsJson (s : State) (c : Coins) : Json := jl (s.denoms.map fun d => jn (c d))

def dump (s : State) : Json :=
  mkObj [
    ("tunnels", jl ((List.range s.count).map fun i =>
      match s.tunnels (i + 1) with
      | none => Json.null
      | some t => mkObj [("creator", jn t.creator), ("active", jb t.isActive), ("total", coinsJson s t.totalDeposit),
          ("deposits", jl (s.accts.map fun a => match s.deposits (i + 1) a with
            | none => Json.null
            | some d => coinsJson s d))])),
    ("activeIdx", jl (s.activeIdx.map jn)),
    ("bal", jl (s.accts.map fun a => coinsJson s (s.bal a))),
    ("module", coinsJson s s.moduleBal)]

def parseCoins (s : State) (j : Json) (k : String) : Except String Coins := do
  let l ← jnatList j k
  pure fun d => l.getD (s.denoms.idxOf d) 0

def step (s : State) (j : Json) : Except String (State × Json × List Fired) := do
  let op ← jstr j "op"
  let out := (j.getObjVal? "out").toOption.getD Json.null
  if op == "genesis" then
    -- `ValidateGenesis` on the exported state or on one with a deposit clause broken: the verdict of the deposit clauses
    let nd := s.denoms.length
    let tunnels ← (← jarr j "tunnels").mapM fun e => match e with
      | .arr #[a, .arr b] => do pure ((← asNat a), (← b.toList.mapM asNat))
      | _ => throw "bad genesis tunnel"
    let deps ← (← jarr j "deposits").mapM fun e => match e with
      | .arr #[a, b, .arr c] => do pure ((← asNat a), (← asNat b), (← c.toList.mapM asNat))
      | _ => throw "bad genesis deposit"
    let count := (jnat j "count").toOption.getD tunnels.length
    let ok := genesisDepositsOk nd tunnels deps && genesisTunnelsOk count (tunnels.map (·.1))
    let iacc ← jbool out "accepted"
    let mut fired : List Fired := []
    if iacc && !ok then
      fired := fired ++ [{ name := "invalid_genesis_accepted", detail := mkObj [("variant", (j.getObjVal? "variant").toOption.getD Json.null)] }]
    if !iacc && ok then
      fired := fired ++ [{ name := "reachable_state_rejected_as_genesis", detail := mkObj [("err", (out.getObjVal? "err").toOption.getD Json.null)] }]
    return (s, mkObj [("accepted", jb ok), ("err", (out.getObjVal? "err").toOption.getD Json.null)], fired)
  if op == "importBalance" then
    -- `InitGenesis` on a branch whose module account holds what `balance` says: accepted exactly when that IS the escrow
    let esc ← jnatList j "escrowed"
    let bal ← jnatList j "balance"
    let ok := importBacked esc bal
    let iacc ← jbool out "accepted"
    let mut fired : List Fired := []
    if iacc && !ok then
      fired := fired ++ [{ name := "unbacked_genesis_imported", detail := mkObj [("escrowed", jl (esc.map jn)), ("balance", jl (bal.map jn))] }]
    if !iacc && ok then
      fired := fired ++ [{ name := "backed_genesis_refused", detail := mkObj [("escrowed", jl (esc.map jn))] }]
    return (s, mkObj [("accepted", jb ok)], fired)
  let (s', e) ← match op with
    | "create" => do pure (createOp s (← jnat j "acct") (← parseCoins s j "amt"))
    | "deposit" => do pure (depositOp s (← jnat j "tid") (← jnat j "acct") (← parseCoins s j "amt"))
    | "withdraw" => do pure (withdrawOp s (← jnat j "tid") (← jnat j "acct") (← parseCoins s j "amt"))
    | "activate" => do pure (activateOp s (← jnat j "tid") (← jnat j "acct"))
    | "deactivate" => do pure (deactivateOp s (← jnat j "tid") (← jnat j "acct"))
    | "setMinDeposit" => do pure ({ s with minDeposit := ← parseCoins s j "amt" }, Err.ok)   -- MsgUpdateParams (no tunnel is touched)
    | "reimport" => do pure (s, Err.ok)    -- genesis export → validate → import on a store branch: nothing changes
    | _ => throw s!"unknown op {op}"
  -- monitors on the implementation's dump
  let mut fired : List Fired := []
  let itun ← jarr out "tunnels"
  let imodule ← jnatList out "module"
  let iactive ← jnatList out "activeIdx"
  let nd := s.denoms.length
  let mut sumTotals : List Nat := List.replicate nd 0
  let mut idx := 0
  for t in itun do
    idx := idx + 1
    if t != Json.null then
      let total ← jnatList t "total"
      let deps ← jarr t "deposits"
      let mut sumDeps : List Nat := List.replicate nd 0
      for d in deps do
        if d != Json.null then
          let dl ← (match d with | .arr xs => xs.toList.mapM asNat | _ => throw "bad deposit")
          sumDeps := (List.range nd).map fun i => sumDeps.getD i 0 + dl.getD i 0
      if total != sumDeps then
        fired := fired ++ [{ name := "total_deposit_ne_sum_of_deposits", detail := mkObj [("tunnel", jn idx), ("total", jl (total.map jn)), ("sum", jl (sumDeps.map jn))] }]
      sumTotals := (List.range nd).map fun i => sumTotals.getD i 0 + total.getD i 0
      let act ← jbool t "active"
      if act != iactive.contains idx then
        fired := fired ++ [{ name := "active_flag_ne_active_index", detail := mkObj [("tunnel", jn idx)] }]
      let minOk := (List.range nd).all fun i => s.minDeposit (s.denoms.getD i "") ≤ total.getD i 0
      -- judged on the tunnel the operation is about: an activation, or a withdrawal that leaves it active, below the minimum
      -- (a minimum raised later by governance leaves existing active tunnels alone)
      if act && !minOk && (op == "activate" || op == "withdraw") && (jstr out "err").toOption.getD "" == "" && (jnat j "tid").toOption == some idx then
        fired := fired ++ [{ name := "active_below_min_deposit", detail := mkObj [("tunnel", jn idx), ("op", js op)] }]
  if imodule != sumTotals then
    fired := fired ++ [{ name := "module_balance_ne_total_deposits", detail := mkObj [("module", jl (imodule.map jn)), ("totals", jl (sumTotals.map jn))] }]
  if (← jstr out "err") == "" then
    if op == "withdraw" then
      -- the withdrawer had at least that deposit, and received exactly the amount
      let tid ← jnat j "tid"
      let a ← jnat j "acct"
      let amt ← parseCoins s j "amt"
      let had := (s.deposits tid a).getD (fun _ => 0)
      if !(geAll s had amt) then
        fired := fired ++ [{ name := "withdrew_more_than_own_deposit", detail := mkObj [("tunnel", jn tid), ("acct", jn a)] }]
      let ibal ← jarr out "bal"
      let after ← (match ibal.getD (s.accts.idxOf a) Json.null with | .arr xs => xs.toList.mapM asNat | _ => throw "bad bal")
      if after != s.denoms.map (fun d => s.bal a d + amt d) then
        fired := fired ++ [{ name := "withdrawer_not_paid_exactly", detail := mkObj [("acct", jn a)] }]
    if op == "activate" then
      let tid ← jnat j "tid"
      let a ← jnat j "acct"
      match s.tunnels tid with
      | some t =>
        if !(t.creator == a && !t.isActive && geAll s t.totalDeposit s.minDeposit) then
          fired := fired ++ [{ name := "activation_gate_bypassed", detail := mkObj [("tunnel", jn tid), ("acct", jn a)] }]
      | none => fired := fired ++ [{ name := "activation_gate_bypassed", detail := mkObj [("tunnel", jn tid)] }]
    if op == "deactivate" then
      let tid ← jnat j "tid"
      let a ← jnat j "acct"
      match s.tunnels tid with
      | some t => if t.creator != a then fired := fired ++ [{ name := "non_creator_deactivated", detail := mkObj [("tunnel", jn tid)] }]
      | none => pure ()
  let mout := (dump s').setObjVal! "err" (js (errCode e))
  if op == "reimport" && !jsonEq out mout then
    fired := fired ++ [{ name := "genesis_roundtrip_changes_state", detail := mkObj [("err", (out.getObjVal? "err").toOption.getD Json.null)] }]
  pure (s', mout, fired)

def initSt (j : Json) : State :=
  let denoms := (jstrList j "denoms").toOption.getD ["uband"]
  let accts := (jnatList j "accts").toOption.getD [0, 1, 2]
  let minD := (jnatList j "minDeposit").toOption.getD []
  let bals : List (List Nat) := match jarr j "bal" with
    | .ok l => l.map fun r => match r with
      | .arr xs => xs.toList.map fun x => (asNat x).toOption.getD 0
      | _ => []
    | _ => []
  { tunnels := fun _ => none, deposits := fun _ _ => none, activeIdx := [], count := 0,
    bal := fun a d => (bals.getD (accts.idxOf a) []).getD (denoms.idxOf d) 0,
    moduleBal := fun _ => 0, minDeposit := fun d => minD.getD (denoms.idxOf d) 0, denoms := denoms, accts := accts }

def main : IO UInt32 := runDriver { init := initSt, step := step }
