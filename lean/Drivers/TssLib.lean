/- Driver for C05 / C10 / C13(signing): tss signing + bandtss fees; full-state comparison and monitors. -/
import BandVerif.Common.Driver
import BandVerif.Model.Signing
import BandVerif.Generated.Errors

open Lean BandVerif BandVerif.Signing

namespace TssLib
structure St where
  s : State
  nreq : Nat

def errCode : Err → String
  | .ok => ""
  | .deLimit => Generated.Err.tss_ErrDELimitExceeded
  | .noSigners => Generated.Err.tss_ErrInsufficientSigners
  | .maxAttempt => Generated.Err.tss_ErrMaxSigningAttemptExceeded
  | .feeExceedsLimit => Generated.Err.bandtss_ErrFeeExceedsLimit
  | .insufficientFunds => "sdk/5"
  | .signingNotFound => Generated.Err.tss_ErrSigningNotFound
  | .notWaiting => Generated.Err.tss_ErrSigningAlreadySuccess
  | .notAssigned => Generated.Err.tss_ErrMemberNotAssigned
  | .alreadySigned => Generated.Err.tss_ErrAlreadySigned
  | .badSignature => Generated.Err.tss_ErrSubmitSigningSignatureFailed
  | .alreadyActive => Generated.Err.bandtss_ErrMemberAlreadyActive
  | .penaltyNotElapsed => Generated.Err.bandtss_ErrPenaltyDurationNotElapsed
  | .memberNotFound => Generated.Err.bandtss_ErrMemberNotFound
  | .invalidCoins => "sdk/10"
  | .createFailed => Generated.Err.tss_ErrCreateSigningFailed

def coinsJson (s : State) (c : Coins) : Json := jl (s.denoms.map fun d => jn (c d))
def sortNat (l : List Nat) : List Nat := l.mergeSort (fun a b => decide (a ≤ b))

def dump (st : St) : Json :=
  let s := st.s
  mkObj [
    ("members", jl (s.members.map fun m => mkObj [("q", jl ((s.queues m).map jn)), ("tssActive", jb (s.tssActive m)),
        ("bActive", jb (s.bActive m)), ("bal", coinsJson s (s.bal m))])),
    ("signings", jl ((List.range s.count).map fun i =>
      let sid := i + 1
      match s.signings sid with
      | none => Json.null
      | some sg => mkObj [("status", jn sg.status), ("attempt", jn sg.attempt), ("mapping", jn (s.mapping sid)),
          ("attempts", jl ((List.range sg.attempt).map fun a =>
            match s.attempts sid (a + 1) with
            | none => Json.null
            | some atm => mkObj [("exp", ji atm.expiredHeight), ("assigned", jl (atm.assigned.map fun (m, t) => jl [jn m, jn t])),
                ("partials", jl ((sortNat (s.partials sid (a + 1))).map jn))]))])),
    ("expirations", jl (s.expirations.map fun (a, b) => jl [jn a, jn b])),
    ("pending", jl (s.pending.map jn)),
    ("escrow", coinsJson s s.escrow),
    ("req", jl ((List.range st.nreq).map fun i => coinsJson s (s.bal (100 + i))))]

def parseCoins (s : State) (j : Json) (k : String) : Except String Coins := do
  let l ← jnatList j k
  pure fun d => l.getD (s.denoms.idxOf d) 0

/-- assigned member ids of attempt `att` of signing `sid` in the implementation's dump -/
def implAssigned (out : Json) (sid att : Nat) : List (Nat × Nat) :=
  match (do
    let sg ← (← jarr out "signings")[sid - 1]?.elim (.error "x") pure
    let a ← (← jarr sg "attempts")[att - 1]?.elim (.error "x") pure
    (← jarr a "assigned").mapM fun e => match e with
      | .arr #[m, t] => do pure ((← asNat m), (← asNat t))
      | _ => .error "x" : Except String (List (Nat × Nat))) with
  | .ok l => l
  | .error _ => []

def implSigning (out : Json) (sid : Nat) : Option (Nat × Nat) :=
  match (do
    let sg ← (← jarr out "signings")[sid - 1]?.elim (.error "x") pure
    pure ((← jnat sg "status"), (← jnat sg "attempt")) : Except String (Nat × Nat)) with
  | .ok x => some x
  | .error _ => none

/-- available members whose queue holds a malformed pair -/
def badHolders (s : State) : List Nat := (available s).filter fun m => (s.queues m).any (s.badTokens.contains ·)

def step (st : St) (j : Json) : Except String (St × Json × List Fired) := do
  let op ← jstr j "op"
  let out := (j.getObjVal? "out").toOption.getD Json.null
  let s := st.s
  let mut fired : List Fired := []
  -- a member's registered public key (what its partial signatures are verified against) is the one key generation gave it,
  -- for as long as the group exists
  match (j.getObjVal? "obs").toOption.bind (fun o => (o.getObjVal? "keysChanged").toOption) with
  | some (.arr a) =>
    if !a.isEmpty then
      fired := fired ++ [{ name := "member_public_key_lost_or_changed", detail := Json.arr a }]
  | _ => pure ()
  -- every position the queue header counts (head ≤ i < tail) holds a nonce pair: a counted but empty position makes the
  -- member look supplied (eligible for committees and for the signing reward) while nothing can be dequeued for it
  match (out.getObjVal? "members") with
  | .ok (.arr ms) =>
    let holes := (ms.toList.zipIdx.filter fun (m, _) => match m.getObjVal? "q" with
      | .ok (.arr q) => q.any fun t => match t with | .num n => n.mantissa < 0 | _ => false
      | _ => false).map (·.2 + 1)
    if !holes.isEmpty then
      fired := fired ++ [{ name := "queue_header_counts_a_missing_nonce", detail := jl (holes.map jn) }]
  | _ => pure ()
  let (s', e) ← match op with
    | "submitDE" => do pure (enqueue s (← jnat j "member") (← jnat j "k"))
    | "resetDE" => do pure (resetDE s (← jnat j "member"), Err.ok)
    | "reimport" => do pure (s, Err.ok)      -- genesis export → import: nothing the model tracks changes
    | "badDE" => do pure (enqueueBad s (← jnat j "member"))
    | "request" => do
      -- a creation the implementation rolled back leaves no committee to read: offer the model the members
      -- holding a malformed pair (it fails only if one of them is at the head of an available member's queue)
      let committee := if (jstr out "err").toOption.getD "" == "" then (implAssigned out (s.count + 1) 1).map (·.1) else badHolders s
      pure (request s (100 + (← jnat j "sender")) (← jbool j "authority") (← parseCoins s j "feeLimit") committee (← jint j "height"))
    | "oracleSigning" => do
      -- signing source "oracle result", possibly interrupted by an out-of-gas panic inside safeCreateSigning: whether the
      -- creation went through is read from the implementation (a new signing record exists); the model then performs the
      -- whole creation, or nothing
      if (implSigning out (s.count + 1)).isSome then
        let committee := (implAssigned out (s.count + 1) 1).map (·.1)
        pure (requestKeeper s (100 + (← jnat j "sender")) (← parseCoins s j "feeLimit") committee (← jint j "height"))
      else pure (s, Err.createFailed)
    | "submit" => do pure (submit s (← jnat j "sid") (← jnat j "member") (← jbool j "signerOk") (← jbool j "valid"))
    | "endBlock" => do
      let committee : Nat → List Nat := fun sid =>
        match s.signings sid with
        | some sg =>
          let a := (implAssigned out sid (sg.attempt + 1)).map (·.1)
          if a.isEmpty then badHolders s else a
        | none => []
      pure (endBlock s committee (← jint j "height") (← jint j "now"), Err.ok)
    | "activate" => do pure (activate s (← jnat j "member") (← jint j "now"))
    | "setParams" => do
      pure ({ s with signingPeriod := ← jnat j "signingPeriod", maxAttempt := ← jnat j "maxAttempt", maxDE := ← jnat j "maxDE",
                     feePerSigner := ← parseCoins s j "feePerSigner" }, Err.ok)
    | _ => throw s!"unknown op {op}"
  let st' := { st with s := s' }
  -- ===== monitors on the implementation's dump =====
  let ierr := (jstr out "err").toOption.getD ""
  -- C05: no DE token in two persisted attempts, and an assigned token is in no queue
  let isigs := (jarr out "signings").toOption.getD []
  let mut allAssigned : List Nat := []
  for sg in isigs do
    for a in (jarr sg "attempts").toOption.getD [] do
      for e in (jarr a "assigned").toOption.getD [] do
        match e with
        | .arr #[_, t] => allAssigned := allAssigned ++ [(asNat t).toOption.getD 0]
        | _ => pure ()
  -- tokens assigned in attempts already deleted are remembered by the model's log
  let histTokens := s'.assignedLog.map (·.2.2.2)
  let implNew := allAssigned.filter (fun t => !histTokens.contains t)
  if !implNew.isEmpty && ierr == "" then
    fired := fired ++ [{ name := "de_assigned_outside_model_history", detail := jl (implNew.map jn) }]
  if allAssigned.eraseDups.length ≠ allAssigned.length then
    fired := fired ++ [{ name := "de_assigned_twice", detail := jl (allAssigned.map jn) }]
  let imembers := (jarr out "members").toOption.getD []
  let mut queued : List Nat := []
  for m in imembers do
    queued := queued ++ (jnatList m "q").toOption.getD []
  let histAll := (s.assignedLog.map (·.2.2.2)) ++ allAssigned
  if queued.any (histAll.contains ·) then
    fired := fired ++ [{ name := "assigned_de_still_queued", detail := jl (queued.map jn) }]
  -- a pair leaves a queue only by being assigned (or by the member's own reset)
  if op != "resetDE" then
    let before := s.members.flatMap fun m => s.queues m
    let gone := before.filter fun t => !queued.contains t && !histAll.contains t
    if !gone.isEmpty then
      fired := fired ++ [{ name := "de_left_queue_without_assignment", detail := jl (gone.map jn) }]
  -- a signing request whose fee limit and balance cover the cost exactly (or more) is not refused for its fee
  if op == "request" && e == Err.ok && (ierr == Generated.Err.bandtss_ErrFeeExceedsLimit || ierr == "sdk/5") then
    fired := fired ++ [{ name := "affordable_signing_request_rejected", detail := mkObj [("err", js ierr)] }]
  -- interim data of a finished attempt is removed: the attempt record and its partial signatures exist only for the
  -- current attempt of a signing that is still scheduled for expiry
  for (sg, k) in isigs.zip (List.range isigs.length) do
    let atts := (jarr sg "attempts").toOption.getD []
    for (a, n) in atts.zip (List.range atts.length) do
      if a != Json.null && (s'.attempts (k + 1) (n + 1)).isNone && ierr == "" && op == "endBlock" then
        fired := fired ++ [{ name := "finished_attempt_data_not_removed", detail := mkObj [("signing", jn (k + 1)), ("attempt", jn (n + 1))] }]
  -- a genesis export/import keeps every member's queue: the same pairs in the order they were registered
  if op == "reimport" then
    for (m, k) in imembers.zip (List.range imembers.length) do
      let q := (jnatList m "q").toOption.getD []
      if q != s.queues (k + 1) then
        fired := fired ++ [{ name := "genesis_roundtrip_changes_nonce_queue", detail := mkObj [("member", jn (k + 1)), ("before", jl ((s.queues (k + 1)).map jn)), ("after", jl (q.map jn))] }]
  if op == "submitDE" && ierr == "" then
    let m := (jnat j "member").toOption.getD 0
    let q := (jnatList (imembers.getD (m - 1) Json.null) "q").toOption.getD []
    if q.length > s.maxDE then
      fired := fired ++ [{ name := "de_queue_above_max", detail := mkObj [("member", jn m), ("len", jn q.length), ("max", jn s.maxDE)] }]
  -- C10: status never leaves SUCCESS/FALLEN, attempt only grows, never above the maximum
  for i in List.range s.count do
    let sid := i + 1
    match s.signings sid, implSigning out sid with
    | some old, some (st2, att2) =>
      if (old.status = stSuccess ∨ old.status = stFallen) ∧ st2 ≠ old.status then
        fired := fired ++ [{ name := "final_status_changed", detail := mkObj [("sid", jn sid), ("from", jn old.status), ("to", jn st2)] }]
      if att2 < old.attempt then
        fired := fired ++ [{ name := "attempt_decreased", detail := mkObj [("sid", jn sid)] }]
      if att2 > s'.maxAttempt ∧ att2 > old.attempt then
        fired := fired ++ [{ name := "attempt_above_max", detail := mkObj [("sid", jn sid), ("attempt", jn att2)] }]
      if op == "endBlock" then
        let height := (jint j "height").toOption.getD 0
        -- an attempt is never timed out before its period passed
        if att2 > old.attempt ∨ (st2 = stFallen ∧ old.status = stWaiting) then
          match s.attempts sid old.attempt with
          | some atm =>
            if atm.expiredHeight > height ∧ !(s.pending.contains sid) then
              fired := fired ++ [{ name := "attempt_timed_out_early", detail := mkObj [("sid", jn sid), ("exp", ji atm.expiredHeight), ("height", ji height)] }]
          | none => pure ()
        -- SUCCESS only for signings whose current attempt has all partial signatures
        if st2 = stSuccess ∧ old.status = stWaiting then
          let full := match s.attempts sid old.attempt with
            | some atm => (s.partials sid old.attempt).length == atm.assigned.length
            | none => false
          if !full then
            fired := fired ++ [{ name := "success_without_all_partials", detail := mkObj [("sid", jn sid)] }]
    | _, _ => pure ()
  if op == "endBlock" then
    -- exactly the idle assigned members of a timed-out attempt are penalised
    for (m, im) in s.members.zip imembers do
      let wasActive := s.bActive m
      let nowActive := (jbool im "bActive").toOption.getD wasActive
      if wasActive && !nowActive then
        let height := (jint j "height").toOption.getD 0
        let genuine := (List.range s.count).any fun i =>
          let sid := i + 1
          match s.signings sid with
          | some sg => match s.attempts sid sg.attempt with
            | some atm => sg.status == stWaiting && decide (atm.expiredHeight ≤ height) && atm.assigned.any (·.1 == m) &&
                         !(s.partials sid sg.attempt).contains m
            | none => false
          | none => false
        if !genuine then
          fired := fired ++ [{ name := "member_penalised_without_idle_timeout", detail := mkObj [("member", jn m)] }]
      if !wasActive && nowActive then
        fired := fired ++ [{ name := "member_activated_by_endblock", detail := mkObj [("member", jn m)] }]
    -- every idle assigned member of an attempt the specification times out in this block is deactivated
    for (sid, att, m) in s'.penalised.drop s.penalised.length do
      let im := imembers.getD (s.members.idxOf m) Json.null
      if (jbool im "bActive").toOption.getD false then
        fired := fired ++ [{ name := "idle_member_not_penalised", detail := mkObj [("sid", jn sid), ("attempt", jn att), ("member", jn m)] }]
    -- the outcome the specification's end-block gives each signing (SUCCESS when all assigned submitted,
    -- retry with attempt+1, FALLEN) is the implementation's
    for i in List.range s.count do
      let sid := i + 1
      match s'.signings sid, implSigning out sid with
      | some ms, some (st2, att2) =>
        if ms.status ≠ st2 ∨ ms.attempt ≠ att2 then
          fired := fired ++ [{ name := "signing_outcome_differs_from_spec", detail := mkObj [("sid", jn sid), ("specStatus", jn ms.status),
            ("specAttempt", jn ms.attempt), ("status", jn st2), ("attempt", jn att2)] }]
      | _, _ => pure ()
    -- C13: escrow pays exactly fee_per_signer to each assigned member of completed current-group signings
    let iescrow := (jnatList out "escrow").toOption.getD []
    let mescrow := s'.denoms.map fun d => s'.escrow d
    if iescrow != mescrow then
      fired := fired ++ [{ name := "escrow_payout_mismatch", detail := mkObj [("impl", jl (iescrow.map jn)), ("model", jl (mescrow.map jn))] }]
  if op == "request" && ierr == "" then
    -- C13: exact cost within the limit, escrowed
    let sender := 100 + (jnat j "sender").toOption.getD 0
    let auth := (jbool j "authority").toOption.getD false
    let limit ← parseCoins s j "feeLimit"
    let cost : Coins := if auth then fun _ => 0 else mulC s.feePerSigner s.threshold
    let ireq := (jarr out "req").toOption.getD []
    let after := match ireq[sender - 100]? with
      | some (.arr xs) => xs.toList.map fun x => (asNat x).toOption.getD 0
      | _ => []
    if after != s.denoms.map (fun d => s.bal sender d - cost d) || !(geAll s limit cost) then
      fired := fired ++ [{ name := "signing_fee_not_exact_or_above_limit", detail := mkObj [("after", jl (after.map jn))] }]
    -- C05: nobody without a queued DE / inactive on the committee
    let committee := (implAssigned out (s.count + 1) 1)
    if committee.any (fun (m, t) => !(s.tssActive m) || (s.queues m).head? != some t) || committee.length ≠ s.threshold then
      fired := fired ++ [{ name := "committee_member_ineligible_or_de_not_fifo", detail := jl (committee.map fun (m, t) => jl [jn m, jn t]) }]
  if op == "request" && ierr == Generated.Err.tss_ErrDENotFound then
    -- C05: the sampler drew a member that has no queued nonce pair (only members with one are eligible)
    fired := fired ++ [{ name := "member_without_nonce_drawn_for_committee", detail := mkObj [("queues", jl (s.members.map fun m => jl ((s.queues m).map jn)))] }]
  if op == "request" && ierr != "" then
    -- a rejected request moves no coins
    let iescrow := (jnatList out "escrow").toOption.getD []
    if iescrow != s.denoms.map (fun d => s.escrow d) then
      fired := fired ++ [{ name := "rejected_request_moved_coins", detail := Json.null }]
  let ecode := if op == "oracleSigning" then (if e == Err.ok then "" else "not-created") else errCode e
  pure (st', (dump st').setObjVal! "err" (js ecode), fired)

def initSt (j : Json) : St :=
  let denoms := (jstrList j "denoms").toOption.getD ["uband"]
  let n := (jnat j "n").toOption.getD 3
  let nreq := (jnat j "nreq").toOption.getD 2
  let coins (k : String) : Coins := fun d => ((jnatList j k).toOption.getD []).getD (denoms.idxOf d) 0
  let reqBal : List (List Nat) := match jarr j "reqBal" with
    | .ok l => l.map fun r => match r with
      | .arr xs => xs.toList.map fun x => (asNat x).toOption.getD 0
      | _ => []
    | _ => []
  let memBal : List (List Nat) := match jarr j "memBal" with
    | .ok l => l.map fun r => match r with
      | .arr xs => xs.toList.map fun x => (asNat x).toOption.getD 0
      | _ => []
    | _ => []
  { nreq := nreq,
    s := { members := (List.range n).map (· + 1), threshold := (jnat j "threshold").toOption.getD 2,
           queues := fun _ => [], nextToken := 0, tssActive := fun _ => true, signings := fun _ => none, attempts := fun _ _ => none,
           partials := fun _ _ => [], expirations := [], pending := [], count := 0,
           signingPeriod := (jnat j "signingPeriod").toOption.getD 1, maxAttempt := (jnat j "maxAttempt").toOption.getD 1,
           maxDE := (jnat j "maxDE").toOption.getD 5,
           bActive := fun _ => true, bSince := fun _ => (jint j "since").toOption.getD 0, penalty := (jint j "penalty").toOption.getD 0,
           mapping := fun _ => 0, bsigs := fun _ => none, bcount := 0, feePerSigner := coins "feePerSigner",
           escrow := coins "escrow", bal := fun a d => if a ≥ 100 then (reqBal.getD (a - 100) []).getD (denoms.idxOf d) 0
                                                     else (memBal.getD (a - 1) []).getD (denoms.idxOf d) 0,
           denoms := denoms, assignedLog := [], penalised := [], completedLog := [], failedLog := [] } }


end TssLib
