/- Driver for C16: restake model replay + "locked power cannot be withdrawn / fully backed" monitors. -/
import BandVerif.Common.Driver
import BandVerif.Model.Restake
import BandVerif.Generated.Errors

open Lean BandVerif BandVerif.Restake

structure St where
  s : State
  naccts : Nat
  vaultKeys : List String

def errCode : Err → String
  | .ok => ""
  | .notAllowedDenom => Generated.Err.restake_ErrNotAllowedDenom
  | .insufficientFunds => "sdk/5"
  | .stakeNotEnough => Generated.Err.restake_ErrStakeNotEnough
  | .unableToUnstake => Generated.Err.restake_ErrUnableToUnstake
  | .unableToUndelegate => Generated.Err.restake_ErrUnableToUndelegate
  | .invalidPower => Generated.Err.restake_ErrInvalidPower
  | .powerNotEnough => Generated.Err.restake_ErrPowerNotEnough
  | .vaultNotActive => Generated.Err.restake_ErrVaultNotActive
  | .vaultNotFound => Generated.Err.restake_ErrVaultNotFound

def dump (st : St) : Json :=
  let s := st.s
  mkObj [
    ("accts", jl ((List.range st.naccts).map fun a => mkObj [
      ("stake", jl (s.denoms.map fun d => jn (s.stake a d))),
      ("deleg", jl (s.vals.map fun v => jn (s.deleg a v))),
      ("index", jl (((indexEntries s a).mergeSort idxGe).map fun e => jl [jn e.1, js e.2])),
      ("bal", jl (s.denoms.map fun d => jn (s.bal a d)))])),
    ("vaults", jl (st.vaultKeys.filterMap fun k => (s.vaults k).map fun b => jl [js k, jb b])),
    ("module", jl (s.denoms.map fun d => jn (s.moduleBal d)))]

structure IAcct where
  stake : List Nat
  deleg : List Nat
  index : List (Nat × String)

def parseAccts (out : Json) : Except String (List IAcct) := do
  (← jarr out "accts").mapM fun a => do
    let idx ← (← jarr a "index").mapM fun e => do
      match e with
      | .arr #[p, k] => pure ((← asNat p), (← asStr k))
      | _ => throw "bad index"
    pure { stake := ← jnatList a "stake", deleg := ← jnatList a "deleg", index := idx }

def step (st : St) (j : Json) : Except String (St × Json × List Fired) := do
  let op ← jstr j "op"
  let out := (j.getObjVal? "out").toOption.getD Json.null
  let s := st.s
  let (s', e) ← match op with
    | "stake" => pure (stakeOp s (← jnat j "acct") (← jstr j "denom") (← jnat j "amt"))
    | "unstake" => pure (unstakeOp s (← jnat j "acct") (← jstr j "denom") (← jnat j "amt"))
    | "unstakeMulti" => do
      let coins ← (← jarr j "coins").mapM fun e => match e with
        | .arr #[d, a] => do pure ((← asStr d), (← asNat a))
        | _ => throw "bad coin"
      pure (unstakeMultiOp s (← jnat j "acct") coins)
    | "delegate" => pure (delegateOp s (← jnat j "acct") (← jnat j "val") (← jnat j "amt"))
    | "undelegate" => pure (undelegateOp s (← jnat j "acct") (← jnat j "val") (← jnat j "amt"))
    | "redelegate" => pure (redelegateOp s (← jnat j "acct") (← jnat j "src") (← jnat j "dst") (← jnat j "amt"))
    | "setLock" => pure (setLockOp s (← jnat j "acct") (← jstr j "vault") (← jint j "power"))
    | "deactivate" => pure (deactivateOp s (← jstr j "vault"))
    | "setAllowed" => pure (setAllowedOp s (← jstrList j "denoms"), Err.ok)
    | "reimport" => pure (s, Err.ok)       -- genesis export → validate → import on a store branch: nothing changes
    | _ => throw s!"unknown op {op}"
  let st' := { st with s := s' }
  -- monitors on the implementation's dump
  let mut fired : List Fired := []
  let ierr ← jstr out "err"
  let iaccts ← parseAccts out
  let ivaults ← (← jarr out "vaults").mapM fun e => do
    match e with
    | .arr #[k, .bool b] => pure ((← asStr k), b)
    | _ => throw "bad vault"
  let imodule ← jnatList out "module"
  let allowedAfter := s'.allowed
  if ierr == "" then
    for a in List.range st.naccts do
      let ia := iaccts.getD a { stake := [], deleg := [], index := [] }
      let power := ia.deleg.foldl (· + ·) 0 +
        ((s.denoms.zip ia.stake).filter (fun (d, _) => allowedAfter.contains d)).foldl (fun acc (_, x) => acc + x) 0
      let maxLock := (ia.index.filter fun (_, k) => ivaults.any fun (k', b) => k' == k && b).foldl (fun m (p, _) => max m p) 0
      let reducing := op == "unstake" || op == "unstakeMulti" || op == "undelegate" || op == "redelegate"
      -- the locks the SPECIFICATION knows of (every accepted lock request, whatever the implementation's index says)
      let specLock := ((indexEntries s' a).filter fun (_, k) => ivaults.any fun (k', b) => k' == k && b).foldl (fun m (p, _) => max m p) 0
      let maxLock := max maxLock specLock
      if reducing && (jnat j "acct").toOption == some a && power < maxLock then
        fired := fired ++ [{ name := "power_below_active_lock_after_withdrawal", detail := mkObj [("acct", jn a), ("power", jn power), ("lock", jn maxLock), ("op", js op)] }]
      -- a standing lock is in the by-power index the withdrawal checks read (re-locking the same power keeps it there)
      let missing := (indexEntries s' a).filter fun e => !(ia.index.any fun e' => e'.1 == e.1 && e'.2 == e.2)
      if !missing.isEmpty then
        fired := fired ++ [{ name := "standing_lock_missing_from_power_index", detail := mkObj [("acct", jn a), ("locks", jl (missing.map fun e => jl [jn e.1, js e.2]))] }]
    if op == "setLock" then
      let a ← jnat j "acct"
      let p ← jint j "power"
      let k ← jstr j "vault"
      if !(p ≤ (totalPower s a : Int) ∧ 0 ≤ p ∧ p < 18446744073709551616 ∧ (ivaults.any fun (k', b) => k' == k && b)) then
        fired := fired ++ [{ name := "lock_set_above_power_or_in_inactive_vault", detail := mkObj [("power", ji p), ("total", jn (totalPower s a))] }]
  -- a vault that was inactive must stay inactive
  for (k, b) in ivaults do
    if b && s.vaults k == some false then
      fired := fired ++ [{ name := "vault_reactivated", detail := js k }]
  -- the module account holds exactly the recorded stakes
  for (d, i) in s.denoms.zip (List.range s.denoms.length) do
    let total := (iaccts.map fun ia => ia.stake.getD i 0).foldl (· + ·) 0
    if imodule.getD i 0 ≠ total + (jnat j "moduleBase").toOption.getD 0 * 0 then
      fired := fired ++ [{ name := "module_balance_ne_sum_of_stakes", detail := mkObj [("denom", js d), ("module", jn (imodule.getD i 0)), ("stakes", jn total)] }]
  let mout := (dump st').setObjVal! "err" (js (errCode e))
  if op == "reimport" && !jsonEq out mout then
    fired := fired ++ [{ name := "genesis_roundtrip_changes_state", detail := mkObj [("err", js ierr)] }]
  pure (st', mout, fired)

def initSt (j : Json) : St :=
  let n := (jnat j "naccts").toOption.getD 3
  let nv := (jnat j "nvals").toOption.getD 3
  let denoms := (jstrList j "denoms").toOption.getD ["uband"]
  let delegs : List (List Nat) := match jarr j "deleg" with
    | .ok l => l.map fun r => match r with
      | .arr xs => xs.toList.map fun x => (asNat x).toOption.getD 0
      | _ => []
    | _ => []
  let bals : List (List Nat) := match jarr j "bal" with
    | .ok l => l.map fun r => match r with
      | .arr xs => xs.toList.map fun x => (asNat x).toOption.getD 0
      | _ => []
    | _ => []
  { naccts := n, vaultKeys := (jstrList j "vaultKeys").toOption.getD [],
    s := { deleg := fun a v => (delegs.getD a []).getD v 0, stake := fun _ _ => 0, locks := fun _ _ => none, lockKeys := fun _ => [],
           vaults := fun _ => none, allowed := (jstrList j "allowed").toOption.getD [],
           bal := fun a d => (bals.getD a []).getD (denoms.idxOf d) 0, moduleBal := fun _ => 0,
           vals := List.range nv, denoms := denoms } }

def main : IO UInt32 := runDriver { init := initSt, step := step }
