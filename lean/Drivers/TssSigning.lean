/- Driver for C05 / C10: tss signing + bandtss (logic in Drivers/TssLib.lean). -/
import Drivers.TssLib
open BandVerif
def main : IO UInt32 := runDriver { init := TssLib.initSt, step := TssLib.step }
