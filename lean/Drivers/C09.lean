/- Driver for C09: recomputes the HMAC-DRBG stream in Lean and replays the sampling model. -/
import BandVerif.Common.Driver
import BandVerif.Model.Sampling
import BandVerif.Exec.Sha256
import BandVerif.Generated.Errors

open Lean BandVerif BandVerif.Sampling BandVerif.Exec

/-- first `n` draws of the DRBG(seed, nonce, personalization) as a total function -/
def drawFn (j : Json) (n : Nat) : Except String (Nat → Nat) := do
  let seed := ofHex (← jstr j "seed")
  let nonce := ofHex (← jstr j "nonce")
  let chain := (← jstr j "chain").toUTF8
  let mut d := Drbg.new seed nonce chain
  let mut arr : Array Nat := #[]
  for _ in [0:n] do
    let (x, d') := d.nextUint64
    arr := arr.push x
    d := d'
  pure (fun i => arr.getD i 0)

def optListJson : Option (List Nat) → Json
  | some l => mkObj [("panic", jb false), ("res", jl (l.map jn))]
  | none => mkObj [("panic", jb true), ("res", jl [])]

def distinct (l : List Nat) : Bool := l.eraseDups.length == l.length

def step (s : Unit) (j : Json) : Except String (Unit × Json × List Fired) := do
  let op ← jstr j "op"
  let out := (j.getObjVal? "out").toOption.getD Json.null
  match op with
  | "draws" =>
    let n ← jnat j "n"
    let f ← drawFn j n
    pure (s, jl ((List.range n).map (fun i => jn (f i))), [])
  | "chooseOne" =>
    let ws ← jnatList j "weights"
    let f ← drawFn j 1
    let r := chooseOne ws (f 0)
    let mout := match r with
      | some i => mkObj [("panic", jb false), ("res", jn i)]
      | none => mkObj [("panic", jb true), ("res", jn 0)]
    let mut fired : List Fired := []
    if !(← jbool out "panic") then
      let i ← jnat out "res"
      if !(i < ws.length ∧ ws.getD i 0 > 0) then
        fired := [{ name := "chosen_index_invalid", detail := jn i }]
    else if r.isSome then
      -- a total weight that fits 64 bits and is not zero: the specification draws, the implementation must not panic
      fired := [{ name := "sampler_panicked_where_the_specification_draws", detail := mkObj [("totalWeight", jn (ws.foldl (· + ·) 0))] }]
    pure (s, mout, fired)
  | "chooseSome" =>
    let ws ← jnatList j "weights"
    let cnt ← jnat j "cnt"
    let f ← drawFn j cnt
    let r := chooseSome cnt ws (List.range ws.length) f 0
    let mut fired : List Fired := []
    if !(← jbool out "panic") then
      let l ← jnatList out "res"
      if !(l.length = cnt ∧ distinct l ∧ l.all (· < ws.length)) then
        fired := [{ name := "sample_not_exact_distinct", detail := out }]
      -- the sample is a function of the seed and the weights: the one the specification draws, and none at all where
      -- the specification refuses (more members asked for than there are, or a total weight that does not fit 64 bits)
      match r with
      | some l' =>
        if l != l' then
          fired := fired ++ [{ name := "sample_is_not_the_seed_determined_one", detail := mkObj [("got", jl (l.map jn)), ("specified", jl (l'.map jn))] }]
      | none =>
        fired := fired ++ [{ name := "sample_drawn_where_the_sampler_must_refuse", detail := mkObj [("got", jl (l.map jn)), ("totalWeight", jn (ws.foldl (· + ·) 0))] }]
    else if r.isSome then
      fired := [{ name := "sampler_panicked_where_the_specification_draws", detail := mkObj [("totalWeight", jn (ws.foldl (· + ·) 0)), ("cnt", jn cnt)] }]
    pure (s, optListJson r, fired)
  | "maxWeight" =>
    let ws ← jnatList j "weights"
    let cnt ← jnat j "cnt"
    let tries ← jnat j "tries"
    let f ← drawFn j (cnt * tries)
    let r := chooseSomeMaxWeight ws cnt tries f
    let mut fired : List Fired := []
    if !(← jbool out "panic") then
      let l ← jnatList out "res"
      if !(l.length = cnt ∧ distinct l ∧ l.all (· < ws.length)) then
        fired := [{ name := "sample_not_exact_distinct", detail := out }]
      -- the sample is a function of the seed and the weights: the one the specification draws, and none at all where
      -- the specification refuses (more members asked for than there are, or a total weight that does not fit 64 bits)
      match r with
      | some l' =>
        if l != l' then
          fired := fired ++ [{ name := "sample_is_not_the_seed_determined_one", detail := mkObj [("got", jl (l.map jn)), ("specified", jl (l'.map jn))] }]
      | none =>
        fired := fired ++ [{ name := "sample_drawn_where_the_sampler_must_refuse", detail := mkObj [("got", jl (l.map jn)), ("totalWeight", jn (ws.foldl (· + ·) 0))] }]
    else if r.isSome then
      fired := [{ name := "sampler_panicked_where_the_specification_draws", detail := mkObj [("totalWeight", jn (ws.foldl (· + ·) 0)), ("cnt", jn cnt)] }]
    pure (s, optListJson r, fired)
  | "createGroup" =>
    -- a proposed member list (account numbers; spelling differences removed): a signing group never holds one participant twice,
    -- or that participant could sit on a committee twice
    let accts ← jnatList j "accounts"
    let vb := (jstr out "validateBasic").toOption.getD ""
    let ierr := (jstr out "err").toOption.getD ""
    let created := vb == "" && ierr == ""
    let mut fired : List Fired := []
    if created && !distinct accts then
      fired := [{ name := "group_created_with_one_participant_twice", detail := mkObj [("accounts", jl (accts.map jn))] }]
    pure (s, out, fired)
  | "randomValidators" =>
    -- env: eligible validators [idx, power] in the staking iteration order
    let elig ← (← jarr j "eligible").mapM fun e => do
      match e with
      | .arr #[a, b] => pure ((← asNat a), (← asNat b))
      | _ => throw "bad eligible"
    let all ← (← jarr j "all").mapM fun e => do
      match e with
      | .arr #[a, .bool bonded, .bool active] => pure ((← asNat a), bonded, active)
      | _ => throw "bad validator"
    let size ← jnat j "size"
    let tries ← jnat j "tries"
    let ierr ← jstr out "err"
    let ires ← jnatList out "res"
    let mut fired : List Fired := []
    if ierr == "" then
      let okElig := ires.all fun v => all.any fun (i, b, a) => i == v && b && a
      if !(ires.length = size ∧ distinct ires ∧ okElig) then
        fired := [{ name := "committee_not_exact_distinct_eligible", detail := out }]
    -- a panic is a panic, whatever its text
    let panicS := if ierr.startsWith "panic" then ierr else "panic"
    -- the stakes are converted to uint64 weights while the eligible validators are collected, before their number is looked at
    if elig.any (fun (_, w) => w ≥ 18446744073709551616) then
      if ierr == "" then
        fired := fired ++ [{ name := "committee_drawn_where_the_sampler_must_refuse", detail := mkObj [("res", jl (ires.map jn)),
          ("totalWeight", jn ((elig.map (·.2)).foldl (· + ·) 0))] }]
      pure (s, mkObj [("err", js panicS), ("res", jl [])], fired)
    else if elig.length < size then
      pure (s, mkObj [("err", js Generated.Err.oracle_ErrInsufficientValidators), ("res", jl [])], fired)
    else
      let f ← drawFn j (size * tries)
      match chooseSomeMaxWeight (elig.map (·.2)) size tries f with
      | none =>
        -- weights that do not fit 64 bits (one of them, or their sum): the sampler refuses; a committee drawn anyway was drawn
        -- against other weights than the validators' stakes
        if ierr == "" then
          fired := fired ++ [{ name := "committee_drawn_where_the_sampler_must_refuse", detail := mkObj [("res", jl (ires.map jn)),
            ("totalWeight", jn ((elig.map (·.2)).foldl (· + ·) 0))] }]
        pure (s, mkObj [("err", js panicS), ("res", jl [])], fired)
      | some l => pure (s, mkObj [("err", js ""), ("res", jl (l.map fun i => jn ((elig.getD i (0, 0)).1)))], fired)
  | "randomMembers" =>
    -- env: members [id, active, hasDE] in store iteration order
    let ms ← (← jarr j "members").mapM fun e => do
      match e with
      | .arr #[a, .bool act, .bool de] => pure ((← asNat a), act, de)
      | _ => throw "bad member"
    let threshold ← jnat j "threshold"
    let avail := (ms.filter fun (_, a, d) => a && d).map (·.1)
    let ierr ← jstr out "err"
    let ires ← jnatList out "res"
    let mut fired : List Fired := []
    if ierr == "" then
      let sorted := (List.range ires.length).all fun i => i + 1 ≥ ires.length || ires.getD i 0 < ires.getD (i + 1) 0
      if !(ires.length = threshold ∧ distinct ires ∧ ires.all (avail.contains ·) ∧ sorted) then
        fired := [{ name := "signers_not_exact_distinct_eligible_sorted", detail := out }]
    let f ← drawFn j threshold
    match randomPositions avail.length threshold f with
    | none => pure (s, mkObj [("err", js Generated.Err.tss_ErrInsufficientSigners), ("res", jl [])], fired)
    | some ps =>
      let ids := (ps.map fun p => avail.getD p 0).mergeSort (fun a b => decide (a ≤ b))
      -- the committee is the one the rolling seed, the signing id and the attempt determine
      if ierr == "" && ires != ids then
        fired := fired ++ [{ name := "signers_are_not_the_seed_determined_ones", detail := mkObj [("got", jl (ires.map jn)), ("specified", jl (ids.map jn)),
          ("signing", (j.getObjVal? "signing").toOption.getD Json.null)] }]
      pure (s, mkObj [("err", js ""), ("res", jl (ids.map jn))], fired)
  | _ => throw s!"unknown op {op}"

def main : IO UInt32 := runDriver { init := fun _ => (), step := step }
