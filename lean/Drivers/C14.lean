/- Driver for C14: per-denom reward allocation model + conservation / only-active monitors. -/
import BandVerif.Common.Driver
import BandVerif.Model.Reward

open Lean BandVerif BandVerif.Reward

/-- state: number of oracle allocations seen in the current case (one begin-block per case) -/
def step (s : Nat) (j : Json) : Except String (Nat × Json × List Fired) := do
  let op ← jstr j "op"
  let out := (j.getObjVal? "out").toOption.getD Json.null
  match op with
  | "oracleAlloc" =>
    let pool ← jint j "pool"
    let pct ← jint j "pct"
    let tax ← jint j "tax"
    let nvals ← jnat j "nvals"
    let proposer ← jnat j "proposer"
    let votes ← (← jarr j "votes").mapM fun e => do
      match e with
      | .arr #[a, b, .bool act] => pure ((← asNat a), (← asInt b), act)
      | _ => throw "bad vote"
    let active := votes.filter (·.2.2)
    let r := oracleAlloc pool pct tax (active.map (·.2.1))
    let (tr, cf, outs) : Int × Int × List Int := match r with
      | none => (0, 0, List.replicate nvals 0)
      | some o =>
        let per := (List.range nvals).map fun v =>
          let own := ((active.zip o.rewards).filter (fun (a, _) => a.1 == v)).foldl (fun acc (_, x) => acc + x) 0
          own + (if v == proposer then o.remaining else 0)
        (o.transferred, o.communityFund * E18, per)
    let mout := mkObj [("err", js ""), ("transferred", ji tr), ("community", ji cf), ("outstanding", jl (outs.map ji)), ("supplyDelta", ji 0)]
    -- monitors on the implementation
    let mut fired : List Fired := []
    if (← jstr out "err") == "" then
      let itr ← jint out "transferred"
      let icf ← jint out "community"
      let iouts ← jintList out "outstanding"
      if itr * E18 ≠ icf + iouts.foldl (· + ·) 0 then
        fired := fired ++ [{ name := "oracle_allocation_not_conserved", detail := out }]
      if (← jint out "supplyDelta") ≠ 0 then
        fired := fired ++ [{ name := "supply_changed", detail := out }]
      for v in List.range nvals do
        let isActiveVoter := active.any (·.1 == v)
        if !isActiveVoter && v != proposer && iouts.getD v 0 ≠ 0 then
          fired := fired ++ [{ name := "inactive_validator_rewarded", detail := mkObj [("val", jn v), ("amount", ji (iouts.getD v 0))] }]
      if iouts.any (· < 0) || icf < 0 || itr < 0 then
        fired := fired ++ [{ name := "negative_amount", detail := out }]
      -- every oracle-active validator of the last block's set gets its power-proportional part (whatever its vote flag)
      if iouts ≠ outs then
        fired := fired ++ [{ name := "oracle_reward_not_split_by_power_over_active_validators", detail := mkObj [("got", jl (iouts.map ji)), ("specified", jl (outs.map ji))] }]
      if pct ≤ 100 ∧ itr ≠ pool * pct / 100 ∧ !active.isEmpty ∧ (active.map (·.2.1)).foldl (· + ·) 0 ≠ 0 then
        fired := fired ++ [{ name := "oracle_share_not_pct_of_pool", detail := out }]
    else if pct ≤ 100 then
      fired := fired ++ [{ name := "begin_block_error", detail := out }]
    pure (s + 1, mout, fired)
  | "tssAlloc" =>
    let pool ← jint j "pool"
    let pct ← jint j "pct"
    let tax ← jint j "tax"
    let members ← (← jarr j "members").mapM fun e => do
      match e with
      | .arr #[.bool act, .bool de] => pure (act, de)
      | _ => throw "bad member"
    let hasGroup ← jbool j "hasGroup"
    let elig := members.map fun (a, d) => a && d
    let n : Int := (elig.filter id).length
    let r := if hasGroup then tssAlloc pool pct tax n else none
    let (tr, per, cf) : Int × Int × Int := match r with
      | none => (0, 0, 0)
      | some o => (o.transferred, o.perMember, o.communityFund * E18)
    let mout := mkObj [("err", js ""), ("transferred", ji tr), ("community", ji cf), ("members", jl (elig.map fun e => ji (if e then per else 0))), ("supplyDelta", ji 0)]
    let mut fired : List Fired := []
    -- begin-block order: the bandtss share is a percentage of what the oracle share LEFT in the fee collector
    if s == 0 then
      fired := fired ++ [{ name := "bandtss_share_taken_before_oracle_share", detail := mkObj [("pool", ji pool)] }]
    if (← jstr out "err") == "" then
      let itr ← jint out "transferred"
      let icf ← jint out "community"
      let ims ← jintList out "members"
      if itr * E18 ≠ icf + (ims.foldl (· + ·) 0) * E18 then
        fired := fired ++ [{ name := "tss_allocation_not_conserved", detail := out }]
      if (← jint out "supplyDelta") ≠ 0 then
        fired := fired ++ [{ name := "supply_changed", detail := out }]
      let paid := (ims.zip elig).filter (·.2) |>.map (·.1)
      if ((ims.zip elig).any fun (x, e) => !e && x ≠ 0) then
        fired := fired ++ [{ name := "ineligible_member_rewarded", detail := out }]
      if paid.any (fun x => x ≠ paid.headD 0) then
        fired := fired ++ [{ name := "members_not_paid_equally", detail := out }]
      if icf < 0 || ims.any (· < 0) then
        fired := fired ++ [{ name := "negative_amount", detail := out }]
    else if pct ≤ 100 then
      fired := fired ++ [{ name := "begin_block_error", detail := out }]
    pure (s, mout, fired)
  | _ => throw s!"unknown op {op}"

def main : IO UInt32 := runDriver { init := fun _ => 0, step := step }
