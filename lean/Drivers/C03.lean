/- Driver for C03: recomputes Lagrange coefficients, binding factors, nonces, challenges, partial and group
   signature checks with the model instantiated on secp256k1 (Exec/Secp256k1) and Keccak (Exec/Keccak). -/
import BandVerif.Common.Driver
import BandVerif.Model.Frost
import BandVerif.Model.Lagrange
import BandVerif.Exec.Keccak
import BandVerif.Exec.Secp256k1
import BandVerif.Generated.Errors

open Lean BandVerif BandVerif.Frost

abbrev Bytes := List Nat
def hexVal (c : Char) : Nat :=
  if '0' ≤ c ∧ c ≤ '9' then c.toNat - '0'.toNat else if 'a' ≤ c ∧ c ≤ 'f' then c.toNat - 'a'.toNat + 10 else 0
def ofHexGo : List Char → List Nat
  | a :: b :: rest => (hexVal a * 16 + hexVal b) :: ofHexGo rest
  | _ => []
def ofHex (s : String) : Bytes := ofHexGo s.toList
def toHex (l : Bytes) : String := Keccak.toHex l
def jhex (j : Json) (k : String) : Except String Bytes := do pure (ofHex (← jstr j k))
def jscalar (j : Json) (k : String) : Except String Nat := do pure (Secp.fromBytes (← jhex j k))
def jpoint (j : Json) (k : String) : Except String Secp.Point := do pure (Secp.decompress (← jhex j k))

def K (b : Bytes) : Bytes := Keccak.keccak256 b
def ctxStr : Bytes := Keccak.ofString Generated.Frost.contextString
def be64 (n : Nat) : Bytes := (List.range 8).map fun i => (n >>> (8 * (7 - i))) % 256

/-- the model's operations on secp256k1 -/
def secpOps : Ops Nat Secp.Point :=
  { sadd := fun a b => (a + b) % Secp.n, smul := fun a b => a * b % Secp.n, gadd := Secp.add, gneg := Secp.neg,
    act := Secp.mul, base := Secp.G, zeroG := none, szero := 0 }

instance : DecidableEq Secp.Point := inferInstance

/-- `HashBindingFactor` -/
def bindingFactor (mid : Nat) (data commitment : Bytes) : Nat :=
  Secp.fromBytes (K (ctxStr ++ Keccak.ofString "bindingFactor" ++ be64 mid ++ K (ctxStr ++ Keccak.ofString "signMsg" ++ data) ++
    K (ctxStr ++ Keccak.ofString "signCommitment" ++ commitment)))

def address (P : Secp.Point) : Bytes :=
  match P with
  | none => []
  | some (x, y) => (K (Secp.be32 x ++ Secp.be32 y)).drop 12

/-- `HashChallenge` -/
def challenge (R Y : Secp.Point) (data : Bytes) : Nat :=
  let parity := match Y with | some (_, y) => (if y % 2 = 0 then 2 else 3) | none => 0
  let px := match Y with | some (x, _) => Secp.be32 x | none => []
  Secp.fromBytes (K (ctxStr ++ [0] ++ Keccak.ofString "challenge" ++ [0] ++ address R ++ [parity + 25] ++ px ++ K data))

def scalarHex (n : Nat) : String := toHex (Secp.be32 n)
def pointHex (P : Secp.Point) : String := toHex (Secp.compress P)

def step (_ : Unit) (j : Json) : Except String (Unit × Json × List Fired) := do
  let op ← jstr j "op"
  let out := (j.getObjVal? "out").toOption.getD Json.null
  let mut fired : List Fired := []
  match op with
  | "lagrange" =>
    let mid ← jnat j "mid"
    let ids ← jnatList j "ids"
    let (c, e) := Lagrange.coefficient mid ids
    let mout := match c, e with
      | some v, .ok => mkObj [("err", jb false), ("coeff", js (scalarHex v)), ("panic", js "")]
      | none, .ok => mkObj [("err", jb false), ("coeff", js "model: table index out of range (Go would panic)"), ("panic", js "")]
      | _, _ => mkObj [("err", jb true), ("coeff", js ""), ("panic", js "")]
    let ipanic := (jstr out "panic").toOption.getD ""
    if ipanic != "" then
      -- the routine is total on every list of distinct positive ids containing the member (chain_coefficient_total_and_correct)
      fired := fired ++ [{ name := "lagrange_coefficient_routine_panicked", detail := mkObj [("mid", jn mid), ("ids", jl (ids.map jn)), ("panic", js ipanic)] }]
    -- spec monitor: an accepted coefficient is the Lagrange basis value at 0: λ·∏(j−i) = ∏ j  (mod N)
    if ipanic == "" && !(← jbool out "err") then
      let lam := Secp.fromBytes (← jhex out "coeff")
      let js_ := ids.filter (· ≠ mid)
      let num : Int := js_.foldl (fun (a : Int) (x : Nat) => a * x) 1
      let den : Int := js_.foldl (fun (a : Int) (x : Nat) => a * ((x : Int) - (mid : Int))) 1
      if ((lam : Int) * den - num) % (Secp.n : Int) ≠ 0 then
        fired := fired ++ [{ name := "lagrange_coefficient_wrong", detail := mkObj [("mid", jn mid), ("ids", jl (ids.map jn))] }]
    pure ((), mout, fired)
  | "flow" =>
    let ids ← jnatList j "ids"
    let msg ← jhex j "msg"
    let Y ← jpoint j "groupKey"
    let members ← jarr j "members"
    let ms ← members.mapM fun m => do
      pure ((← jnat m "id"), (← jscalar m "x"), (← jscalar m "d"), (← jscalar m "e"), (← jpoint m "Y"), (← jpoint m "D"), (← jpoint m "E"),
            (← jhex m "D"), (← jhex m "E"))
    let commitment := (ms.map fun (id, _, _, _, _, _, _, Db, Eb) => be64 id ++ Db ++ Eb).flatten
    let rhos := ms.map fun (id, _, _, _, _, _, _, _, _) => bindingFactor id msg commitment
    let nonces := (ms.zip rhos).map fun ((_, _, _, _, _, D, E, _, _), rho) => ownPubNonce secpOps D E rho
    let gN := sumG secpOps nonces
    let c := challenge gN Y msg
    let mut parts : List (Secp.Point × Nat) := []
    let mut mouts : List Json := []
    let mut allOk := true
    let imembers ← jarr out "members"
    let mut idx := 0
    for ((id, x, d, e, Yi, _, _, _, _), (rho, Rn)) in ms.zip (rhos.zip nonces) do
      let lam := ((Lagrange.coefficient id ids).1).getD 0
      let k := ownPrivNonce secpOps d e rho
      let sig := signPartial secpOps x k c lam
      let ok := acceptPartial secpOps Rn sig.1 sig.2 c lam Yi
      allOk := allOk && ok
      parts := parts ++ [sig]
      mouts := mouts ++ [mkObj [("rho", js (scalarHex rho)), ("pubNonce", js (pointHex Rn)), ("lambda", js (scalarHex lam)),
        ("sigR", js (pointHex sig.1)), ("sigS", js (scalarHex sig.2)), ("accepted", jb ok)]]
      -- monitor: the implementation's own partial signature, checked with the independent curve code
      let im := imembers.getD idx Json.null
      let iR ← jpoint im "sigR"
      let iz ← jscalar im "sigS"
      let iacc ← jbool im "accepted"
      let indep := acceptPartial secpOps Rn iR iz c lam Yi
      if iacc != indep then
        fired := fired ++ [{ name := (if iacc then "accepted_partial_fails_independent_check" else "correct_partial_rejected"), detail := mkObj [("member", jn id)] }]
      idx := idx + 1
    let comb := combine secpOps parts
    let gc := challenge comb.1 Y msg
    let gv := verifyGroup secpOps comb gc Y
    -- monitor: the implementation's combined signature verifies under the group key for exactly this message
    let iR ← jpoint out "combR"
    let iz ← jscalar out "combS"
    let igv ← jbool out "groupVerifies"
    let indep := verifyGroup secpOps (iR, iz) (challenge iR Y msg) Y
    if !indep || !igv then
      fired := fired ++ [{ name := "group_signature_does_not_verify", detail := mkObj [("t", jn ids.length), ("ids", jl (ids.map jn))] }]
    -- corruptions: recompute acceptance from the line's own data
    let icorr ← jarr out "corruptions"
    let mut mcorr : List Json := []
    for cj in icorr do
      let cgN ← jpoint cj "groupNonce"
      let cgK ← jpoint cj "groupKey"
      let cmsg ← jhex cj "msg"
      let clam ← jscalar cj "lambda"
      let cR ← jpoint cj "sigR"
      let cz ← jscalar cj "sigS"
      let cY ← jpoint cj "Y"
      let casg ← jpoint cj "assigned"
      let acc := acceptPartial secpOps casg cR cz (challenge cgN cgK cmsg) clam cY
      if (← jbool cj "accepted") then
        fired := fired ++ [{ name := "corrupted_partial_accepted", detail := mkObj [("kind", (cj.getObjVal? "kind").toOption.getD Json.null)] }]
      mcorr := mcorr ++ [cj.setObjVal! "accepted" (jb acc)]
    pure ((), mkObj [("members", jl mouts), ("groupNonce", js (pointHex gN)), ("combR", js (pointHex comb.1)), ("combS", js (scalarHex comb.2)),
      ("groupVerifies", jb gv), ("allAccepted", jb allOk), ("corruptions", jl mcorr)], fired)
  | "chain" =>
    let msg ← jhex j "msg"
    let Y ← jpoint j "groupKey"
    let gN ← jpoint j "groupNonce"
    let assigned ← jarr j "assigned"
    let ams ← assigned.mapM fun m => do
      pure ((← jnat m "id"), (← jpoint m "Y"), (← jpoint m "D"), (← jpoint m "E"), (← jscalar m "rho"), (← jpoint m "pubNonce"), (← jhex m "D"), (← jhex m "E"))
    let ids := ams.map (·.1)
    -- the chain's own assignment data must follow the model: commitment → binding factors → nonces → group nonce
    let commitment := (ams.map fun (id, _, _, _, _, _, Db, Eb) => be64 id ++ Db ++ Eb).flatten
    for (id, _, D, E, rho, Rn, _, _) in ams do
      if bindingFactor id msg commitment != rho || ownPubNonce secpOps D E rho != Rn then
        fired := fired ++ [{ name := "assigned_nonce_not_D_plus_rho_E", detail := mkObj [("member", jn id)] }]
    if sumG secpOps (ams.map fun (_, _, _, _, _, Rn, _, _) => Rn) != gN then
      fired := fired ++ [{ name := "group_nonce_not_sum_of_assigned_nonces", detail := Json.null }]
    let c := challenge gN Y msg
    let subs ← jarr out "subs"
    let mut msubs : List Json := []
    let mut signed : List Nat := []
    let mut stored : List (Secp.Point × Nat) := []
    for s in subs do
      let mid ← jnat s "member"
      let kind ← jstr s "kind"
      let R ← jpoint s "sigR"
      let z ← jscalar s "sigS"
      let ierr ← jstr s "err"
      let merr :=
        match ams.find? (·.1 == mid) with
        | none => Generated.Err.tss_ErrMemberNotAssigned
        | some (_, Yi, _, _, _, Rn, _, _) =>
          if kind == "trailingByte" then "tss/36"      -- message validation: not a 65-byte signature
          else if kind == "wrongSigner" then Generated.Err.tss_ErrMemberNotAssigned
          else if signed.contains mid then Generated.Err.tss_ErrAlreadySigned
          else
            let lam := ((Lagrange.coefficient mid ids).1).getD 0
            if acceptPartial secpOps Rn R z c lam Yi then "" else Generated.Err.tss_ErrSubmitSigningSignatureFailed
      if merr == "" then
        signed := signed ++ [mid]
      -- monitors on the implementation's decision
      let good := match ams.find? (·.1 == mid) with
        | some (_, Yi, _, _, _, Rn, _, _) => acceptPartial secpOps Rn R z c (((Lagrange.coefficient mid ids).1).getD 0) Yi && kind != "wrongSigner" && kind != "trailingByte"
        | none => false
      if ierr == "" && !good then
        fired := fired ++ [{ name := "wrong_partial_signature_accepted", detail := mkObj [("kind", js kind), ("member", jn mid)] }]
      if ierr != "" && good && !(msubs.any fun p => (p.getObjValAs? Nat "member").toOption == some mid && (p.getObjValAs? String "err").toOption == some "") then
        fired := fired ++ [{ name := "correct_partial_signature_rejected", detail := mkObj [("kind", js kind), ("member", jn mid), ("err", js ierr)] }]
      if ierr == "" then stored := stored ++ [(R, z)]
      msubs := msubs ++ [s.setObjVal! "err" (js merr)]
    -- the published signature
    let status ← jnat out "status"
    let allIn := ids.all (signed.contains ·)
    let mstatus := if allIn then 2 else 1
    let comb := combine secpOps stored
    let iR ← jpoint out "sigR"
    let iz ← jscalar out "sigS"
    if status == 2 then
      if !(verifyGroup secpOps (iR, iz) (challenge iR Y msg) Y) then
        fired := fired ++ [{ name := "published_signature_does_not_verify", detail := Json.null }]
    else if allIn then
      fired := fired ++ [{ name := "all_submitted_but_no_signature_published", detail := mkObj [("status", jn status)] }]
    let mout := mkObj [("subs", jl msubs), ("status", jn mstatus),
      ("sigR", js (if allIn then pointHex comb.1 else "")), ("sigS", js (if allIn then scalarHex comb.2 else "")),
      ("groupVerifies", jb (allIn && verifyGroup secpOps comb (challenge comb.1 Y msg) Y))]
    pure ((), mout, fired)
  | _ => throw s!"unknown op {op}"

def main : IO UInt32 := runDriver { init := fun _ => (), step := step }
