/- Driver for C20: grogu signaller decisions vs the model; chain acceptance and in-flight release observed. -/
import BandVerif.Common.Driver
import BandVerif.Model.Grogu
import BandVerif.Exec.Sha256

open Lean BandVerif BandVerif.Grogu

structure St where
  val : ByteArray
  cooldown : Int
  feeds : List (String × Feed)
  dpStart : Nat
  dpOffset : Nat
  /-- querier cases: the model's shared maximum, and (independently) the greatest height the implementation returned -/
  maxH : Nat := 0
  seenMax : Nat := 0

def be64 (n : Nat) : List UInt8 := (List.range 8).map fun i => ((n >>> (8 * (7 - i))) % 256).toUInt8

/-- first 8 bytes (big endian) of sha256(validator address ‖ be64(timestamp)) -/
def slotHash (val : ByteArray) (ts : Int) : Nat :=
  let h := Exec.sha256 (val ++ ByteArray.mk (be64 ts.toNat).toArray)
  (h.toList.take 8).foldl (fun a b => a * 256 + b.toNat) 0

def sortStr (l : List (String × Nat × Nat)) : List (String × Nat × Nat) := (l.toArray.qsort fun a b => a.1 < b.1).toList

def parseTriples (j : Json) (k : String) : Except String (List (String × Nat × Nat)) := do
  (← jarr j k).mapM fun e => match e with
    | .arr #[a, b, c] => do pure ((← asStr a), (← asNat b), (← asNat c))
    | _ => throw "bad triple"

def parseFeeds (j : Json) : Option (List (String × Feed)) :=
  match j.getObjVal? "feeds" with
  | .ok (.arr a) => some (a.toList.filterMap fun e => match e with
      | .arr #[.str s, i, d] => some (s, ({ interval := (asInt i).toOption.getD 0, deviationBP := (asInt d).toOption.getD 0 } : Feed))
      | _ => none)
  | _ => none

def step (st0 : St) (j : Json) : Except String (St × Json × List Fired) := do
  let op ← jstr j "op"
  if op == "query" then
    -- grogu's multi-node query helper: the answer returned is the newest one, and never older than one returned before
    let answers ← (← jarr j "answers").mapM fun e => do
      let h ← asInt e
      pure (if h < 0 then none else some h.toNat)
    let out := (j.getObjVal? "out").toOption.getD Json.null
    let ih ← jint out "height"
    let (m, r) := queryStep st0.maxH answers
    let mut fired : List Fired := []
    let mut seen := st0.seenMax
    if ih ≥ 0 then
      if ih.toNat < st0.seenMax then
        fired := fired ++ [{ name := "stale_chain_view_accepted", detail := mkObj [("returnedHeight", ji ih), ("returnedBefore", jn st0.seenMax)] }]
      if !(answers.any (· == some ih.toNat)) then
        fired := fired ++ [{ name := "returned_answer_is_no_nodes_answer", detail := mkObj [("returnedHeight", ji ih)] }]
      seen := max seen ih.toNat
    let mout := mkObj [("height", match r with | some h => jn h | none => ji (-1)), ("refused", jb r.isNone)]
    return ({ st0 with maxH := m, seenMax := seen }, mout, fired)
  if op != "tick" then throw s!"unknown op {op}"
  -- the chain's current-feed list may have changed before this round
  let st : St := match parseFeeds j with | some f => { st0 with feeds := f } | none => st0
  -- …and so may the cooldown (a parameter change): the daemon reads the parameters at the start of every round
  let st : St := match jint j "cooldown" with | .ok c => { st with cooldown := c } | .error _ => st
  let out := (j.getObjVal? "out").toOption.getD Json.null
  let mut fired : List Fired := []
  let now ← jint j "now"
  let lag ← jint j "lag"
  let prices ← parseTriples j "prices"
  let olds ← (← jarr j "old").mapM fun e => match e with
    | .arr #[a, b, c, d] => do pure ((← asStr a), ({ status := ← asNat b, price := ← asNat c, ts := ← asInt d } : OldPrice))
    | _ => throw "bad old price"
  let pendingBefore ← jstrList j "pendingBefore"
  let nonPending ← jstrList j "nonPending"
  -- bothan status enum → chain status: UNSUPPORTED 1→1, UNAVAILABLE 2→2, AVAILABLE 3→3; price kept only when AVAILABLE
  let conv (s p : Nat) : NewPrice := { status := s, price := if s == 3 then p else 0 }
  let mut expect : List (String × Nat × Nat) := []
  for (sid, f) in st.feeds do
    if nonPending.contains sid then
      match prices.find? (·.1 == sid) with
      | some (_, s, p) =>
        let np := conv s p
        let old := (olds.find? (·.1 == sid)).map (·.2)
        let old := match old with | some o => if o.status == 0 then none else some o | none => none
        let h := match old with | some o => slotHash st.val o.ts | none => 0
        if decideSubmit st.cooldown h st.dpOffset st.dpStart (some f) old np now then
          expect := expect ++ [(sid, np.status, np.price)]
      | none => pure ()
  let tj (l : List (String × Nat × Nat)) : Json := jl ((sortStr l).map fun (a, b, c) => jl [js a, jn b, jn c])
  -- ===== monitors =====
  let idec ← parseTriples out "decided"
  let deliveries := (jarr out "deliveries").toOption.getD []
  -- the first delivery that reached the chain in this tick is the submission itself (later ones are retries)
  match deliveries.find? (fun d => (d.getObjVal? "prices").toOption.isSome) with
  | some d =>
    let e := (jstr d "err").toOption.getD ""
    if e != "" && lag ≤ timeBuffer && pendingBefore.isEmpty && !idec.isEmpty then
      fired := fired ++ [{ name := "decided_price_rejected_by_chain", detail := mkObj [("err", js e), ("decided", tj idec), ("now", ji now), ("lag", ji lag)] }]
  | none => pure ()
  -- a validator the chain would refuse (not bonded, or not oracle-active) submits nothing: whatever it sent would be rejected
  let mayFeed := (jbool j "mayFeed").toOption.getD true
  if !mayFeed && !idec.isEmpty then
    fired := fired ++ [{ name := "prices_decided_for_a_validator_the_chain_refuses", detail := mkObj [("decided", tj idec), ("now", ji now)] }]
  for (sid, _, _) in idec do
    if !nonPending.contains sid then
      fired := fired ++ [{ name := "signal_submitted_while_in_flight", detail := js sid }]
    if !(st.feeds.any (·.1 == sid)) then
      fired := fired ++ [{ name := "submitted_signal_not_a_current_feed", detail := js sid }]
  for (sid, s, p) in expect do
    if !(idec.any (·.1 == sid)) then
      fired := fired ++ [{ name := "due_signal_not_submitted", detail := mkObj [("signal", js sid), ("status", jn s), ("price", jn p), ("now", ji now)] }]
  if !((jbool out "released").toOption.getD true) then
    fired := fired ++ [{ name := "in_flight_signal_never_released", detail := (out.getObjVal? "pendingAfter").toOption.getD Json.null }]
  let waited := (jbool out "waited").toOption.getD true
  -- once every submission of the round has finished, nothing is marked in flight any more
  if waited && ((jbool out "released").toOption.getD true) then
    match out.getObjVal? "pendingAfter" with
    | .ok (.arr xs) =>
      if !xs.isEmpty then
        fired := fired ++ [{ name := "signal_marked_in_flight_after_its_submission_finished", detail := Json.arr xs }]
    | _ => pure ()
  let mout := mkObj [("ran", jb mayFeed), ("decided", tj expect), ("deliveries", jl deliveries), ("released", jb true), ("waited", jb waited),
    ("pendingAfter", if waited then jl [] else (out.getObjVal? "pendingAfter").toOption.getD Json.null)]
  -- compare decisions as sets: the implementation iterates a map
  let iout := out.setObjVal! "decided" (tj idec)
  let j' := j.setObjVal! "out" iout
  let _ := j'
  pure (st, if jsonEq (tj idec) (tj expect) then mout.setObjVal! "decided" ((out.getObjVal? "decided").toOption.getD Json.null) else mout, fired)

def initSt (j : Json) : St :=
  let feeds := match j.getObjVal? "feeds" with
    | .ok (.arr a) => a.toList.filterMap fun e => match e with
      | .arr #[.str s, i, d] => some (s, ({ interval := (asInt i).toOption.getD 0, deviationBP := (asInt d).toOption.getD 0 } : Feed))
      | _ => none
    | _ => []
  let hex := (jstr j "val").toOption.getD ""
  { val := Exec.ofHex hex, cooldown := (jint j "cooldown").toOption.getD 0, feeds := feeds,
    dpStart := (jnat j "dpStart").toOption.getD 50, dpOffset := (jnat j "dpOffset").toOption.getD 30 }

def main : IO UInt32 := runDriver { init := initSt, step := step, resync := some (fun _ st _ => pure st) }
