/- Driver for C02: twin replicas.  The "model" of a deterministic total function is a second execution of it:
   replica B's observations are the prediction for replica A (a DIFF is a divergence), and the totality monitors
   fire on FinalizeBlock errors, panics and blocks that never finish. -/
import BandVerif.Common.Driver
import BandVerif.Model.Determinism

open Lean BandVerif

structure St where
  blocks : Nat := 0

def step (st : St) (j : Json) : Except String (St × Json × List Fired) := do
  let op ← jstr j "op"
  let out := (j.getObjVal? "out").toOption.getD Json.null
  match op with
  | "params" => pure (st, out, [])
  | "genesis" =>
    let a := (out.getObjVal? "hashA").toOption.getD Json.null
    let b := (out.getObjVal? "hashB").toOption.getD Json.null
    pure (st, out, if jsonEq a b then [] else [{ name := "replicas_diverged", detail := mkObj [("height", jn 1), ("genesis", jb true)] }])
  | "block" =>
    let errA ← jstr out "errA"
    let errB ← jstr out "errB"
    let h ← jnat j "height"
    let mut fired : List Fired := []
    if errA.startsWith "hang/" then
      fired := fired ++ [{ name := "block_never_finished", detail := mkObj [("height", jn h), ("err", js errA)] }]
    else if errA.startsWith "panic/" || errB.startsWith "panic/" then
      fired := fired ++ [{ name := "finalize_block_panicked", detail := mkObj [("height", jn h), ("err", js (if errA.isEmpty then errB else errA))] }]
    else if !errA.isEmpty || !errB.isEmpty then
      fired := fired ++ [{ name := "finalize_block_returned_error", detail := mkObj [("height", jn h), ("err", js (if errA.isEmpty then errB else errA))] }]
    let get := fun k => ((out.getObjVal? k).toOption.getD Json.null)
    if errA.isEmpty && errB.isEmpty && (!jsonEq (get "hashA") (get "hashB") || !jsonEq (get "txA") (get "txB")) then
      fired := fired ++ [{ name := "replicas_diverged", detail := mkObj [("height", jn h), ("appHashEqual", jb (jsonEq (get "hashA") (get "hashB"))),
        ("txResultsEqual", jb (jsonEq (get "txA") (get "txB")))] }]
    if errA != errB && !errA.startsWith "hang/" then
      fired := fired ++ [{ name := "replicas_diverged", detail := mkObj [("height", jn h), ("errA", js errA), ("errB", js errB)] }]
    -- prediction of replica A's observation by replica B
    let pred := ((out.setObjVal! "errA" (js errB)).setObjVal! "hashA" ((out.getObjVal? "hashB").toOption.getD Json.null)).setObjVal! "txA"
      ((out.getObjVal? "txB").toOption.getD Json.null)
    pure ({ st with blocks := st.blocks + 1 }, if fired.isEmpty then pred else out, fired)
  | "probe" =>
    let name ← jstr j "name"
    let control := (jbool j "control").toOption.getD false
    let finished ← jbool out "finished"
    let accepted ← jbool out "acceptedByValidate"
    let mut fired : List Fired := []
    if control && !finished then
      fired := fired ++ [{ name := "probe_control_did_not_finish", detail := mkObj [("name", js name)] }]
    if !control && accepted && !finished then
      fired := fired ++ [{ name := "accepted_parameter_value_block_never_finishes", detail := mkObj [("name", js name), ("value", js ((jstr j "value").toOption.getD ""))] }]
    pure (st, out, fired)
  | "scenario" =>
    -- a directed history run in its own process (with a control run that differs in one step)
    let name ← jstr j "name"
    let control := (jbool j "control").toOption.getD false
    let finished ← jbool out "finished"
    let err ← jstr out "err"
    let reached := (jbool out "slashed").toOption.getD true
    let mut fired : List Fired := []
    if control && (!finished || !err.isEmpty || !reached) then
      fired := fired ++ [{ name := "probe_control_did_not_finish", detail := mkObj [("name", js name), ("err", js err)] }]
    if !control then
      if !finished then
        fired := fired ++ [{ name := "block_never_finished", detail := mkObj [("scenario", js name)] }]
      else if err.startsWith "panic/" then
        fired := fired ++ [{ name := "finalize_block_panicked", detail := mkObj [("scenario", js name), ("err", js err)] }]
      else if !err.isEmpty then
        fired := fired ++ [{ name := "finalize_block_returned_error", detail := mkObj [("scenario", js name), ("err", js err)] }]
      else if !reached then
        -- every block finalized, but the history did not get where its control run gets (e.g. the request was never resolved)
        fired := fired ++ [{ name := "scenario_did_not_reach_the_outcome_of_its_control", detail := mkObj [("scenario", js name)] }]
    pure (st, out, fired)
  | _ => throw s!"unknown op {op}"

def initSt (_ : Json) : St := {}

/-- the two replicas' genesis hashes are on the reset line; a mismatch there is reported by the harness stats -/
def main : IO UInt32 := runDriver { init := initSt, step := step, resync := some (fun _ st _ => pure st) }
