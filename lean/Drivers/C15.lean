/- Driver for C15: validator status model replay + "deactivated only for a genuine miss" monitors. -/
import BandVerif.Common.Driver
import BandVerif.Model.ValidatorStatus
import BandVerif.Model.FeedsSubmit
import BandVerif.Generated.Errors

open Lean BandVerif BandVerif.VStatus

structure St where
  st : Nat → VS
  n : Nat

def vsJson (s : VS) : Json := jl [jb s.active, jb s.sinceZero, ji (if s.sinceZero then 0 else s.since)]
def allJson (s : St) : Json := jl ((List.range s.n).map fun i => vsJson (s.st i))

def parseVS (j : Json) : Except String VS := do
  match j with
  | .arr #[.bool a, .bool z, t] => pure ⟨a, z, ← asInt t⟩
  | _ => throw "bad status"

def step (s : St) (j : Json) : Except String (St × Json × List Fired) := do
  let op ← jstr j "op"
  let out := (j.getObjVal? "out").toOption.getD Json.null
  match op with
  | "activate" =>
    let v ← jnat j "val"
    let now ← jint j "now"
    let pen ← jint j "penalty"
    let (s', e) := activate (s.st v) pen now
    let code := match e with
      | .ok => "" | .alreadyActive => Generated.Err.oracle_ErrValidatorAlreadyActive | .tooSoon => Generated.Err.oracle_ErrTooSoonToActivate
    let st' : St := { s with st := fun i => if i = v then s' else s.st i }
    let mut fired : List Fired := []
    let ierr ← jstr out "err"
    let pre := s.st v
    if ierr == "" && (pre.active || (!pre.sinceZero && pre.since + pen > now)) then
      fired := [{ name := "activated_before_penalty_elapsed", detail := mkObj [("since", ji pre.since), ("penalty", ji pen), ("now", ji now), ("wasActive", jb pre.active)] }]
    pure (st', mkObj [("err", js code), ("status", vsJson s')], fired)
  | "submitPrices" =>
    -- feeds MsgSubmitSignalPrices: the stored price list after the real handler against Model/FeedsSubmit.lean
    let feeds ← jstrList j "feeds"
    let parseVP : Json → Except String FeedsSubmit.VP := fun e => match e with
      | .arr #[a, b, c, d, f] => do pure ⟨← asNat a, ← asStr b, ← asNat c, ← asInt d, ← asInt f⟩
      | _ => throw "bad price entry"
    let prev ← (← jarr j "prev").mapM parseVP
    let msg ← (← jarr j "msg").mapM fun e => match e with
      | .arr #[a, b, c] => do pure ((← asStr a), (← asNat b), (← asNat c))
      | _ => throw "bad msg entry"
    let now ← jint j "now"
    let height ← jint j "height"
    let r := FeedsSubmit.submit feeds prev msg (← jint j "msgTs") now height (← jint j "cooldown") (← jint j "disc") (← jbool j "required")
    let vpJson : FeedsSubmit.VP → Json := fun v => jl [jn v.status, js v.sid, jn v.price, ji v.ts, ji v.bh]
    let ilist ← (← jarr out "list").mapM parseVP
    let mout := match r with
      | .ok l => mkObj [("err", js ""), ("list", jl (l.map vpJson))]
      | .error e => mkObj [("err", js (match e with
          | .tooLarge => "tooLarge" | .notRequired => "notRequired" | .badTimestamp => "badTimestamp"
          | .notSupported => "notSupported" | .tooEarly => "tooEarly")), ("list", jl (prev.map vpJson))]
    let mut fired : List Fired := []
    if (← jstr out "err") == "" then
      -- an accepted price carries the time and height of its block (freshness and miss detection read this timestamp)
      for (sid, _, _) in msg do
        match ilist.find? (·.sid == sid) with
        | some v =>
          if v.ts ≠ now || v.bh ≠ height then
            fired := fired ++ [{ name := "accepted_price_not_stamped_with_block_time", detail := mkObj [("signal", js sid), ("storedTs", ji v.ts), ("blockTime", ji now),
              ("storedHeight", ji v.bh), ("height", ji height)] }]
        | none => fired := fired ++ [{ name := "accepted_price_not_stored", detail := mkObj [("signal", js sid)] }]
      -- every stored entry sits at the position of its own signal in the current feed list
      for (v, k) in ilist.zip (List.range ilist.length) do
        if v.status ≠ 0 && feeds[k]? ≠ some v.sid then
          fired := fired ++ [{ name := "stored_price_at_the_position_of_another_signal", detail := mkObj [("position", jn k), ("signal", js v.sid)] }]
      -- the whole stored list is the handler's: prices of other current signals are kept (miss detection falls back on their
      -- block height), prices of signals that left the feed list are dropped
      match r with
      | .ok l =>
        if l != ilist then
          fired := fired ++ [{ name := "stored_price_list_differs_from_the_handlers", detail := mkObj [("stored", jl (ilist.map vpJson)), ("specified", jl (l.map vpJson))] }]
      | .error _ => pure ()
    else
      -- a submission the handler's rules admit must not be rejected (grogu relies on them)
      match r with
      | .ok _ => fired := fired ++ [{ name := "admissible_price_submission_rejected", detail := mkObj [("err", js ((jstr out "err").toOption.getD ""))] }]
      | .error _ => pure ()
    pure (s, mout, fired)
  | "missReport" =>
    let v ← jnat j "val"
    let rt ← jint j "requestTime"
    let now ← jint j "now"
    let s' := missReport (s.st v) rt now
    let st' : St := { s with st := fun i => if i = v then s' else s.st i }
    let pre := s.st v
    let istatus ← parseVS (← jget out "status")
    let mut fired : List Fired := []
    if pre.active && !istatus.active && !(pre.since < rt) then
      fired := [{ name := "deactivated_though_active_after_request", detail := mkObj [("since", ji pre.since), ("requestTime", ji rt)] }]
    if !pre.active && istatus.active then
      fired := fired ++ [{ name := "activated_without_activate", detail := Json.null }]
    pure (st', mkObj [("status", vsJson s')], fired)
  | "checkMiss" =>
    let r := checkMiss (← jint j "interval") (← jint j "lastUpd") (← jint j "lastUpdBlock") (← jbool j "hasPrice")
      (← jint j "priceTs") (← jint j "priceBlock") (← jint j "since") (← jint j "blockTime") (← jint j "blockHeight") (← jint j "grace")
    pure (s, jb r, [])
  | "feedsEndBlock" =>
    let lastUpd ← jint j "lastUpd"
    let lastUpdBlock ← jint j "lastUpdBlock"
    let now ← jint j "now"
    let height ← jint j "height"
    let grace ← jint j "grace"
    let feeds ← jintList j "intervals"
    let vals ← (← jarr j "vals").mapM fun v => do
      let ps ← (← jarr v "prices").mapM fun p => do
        match p with
        | .arr #[.bool h, t, b] => pure (h, (← asInt t), (← asInt b))
        | _ => throw "bad price"
      pure ({ idx := (← jnat v "idx"), capturedSince := (← jint v "since"), prices := ps } : ValView)
    let st' := sweep lastUpd lastUpdBlock now height grace vals feeds 0 s.st
    let s' : St := { s with st := st' }
    -- monitor: every validator the implementation deactivated in this sweep has a genuine miss
    let iall ← (← jarr out "statuses").mapM parseVS
    let mut fired : List Fired := []
    for v in vals do
      let pre := s.st v.idx
      let post := iall.getD v.idx pre
      if pre.active && !post.active then
        let bt := unixOf now
        let su := unixOf v.capturedSince
        let genuine := (List.range feeds.length).any fun fi =>
          let iv := feeds.getD fi 0
          let (hp, ts, bh) := v.prices.getD fi (false, 0, 0)
          decide (bt > lastUpd + grace ∧ bt > su + grace ∧ (!hp ∨ bt > ts + iv) ∧
                  height > lastUpdBlock + grace / 3 ∧ (!hp ∨ height > bh + iv / 3))
        if !genuine then
          fired := fired ++ [{ name := "deactivated_without_genuine_miss", detail := mkObj [("val", jn v.idx), ("now", ji now), ("height", ji height)] }]
      if !pre.active && post.active then
        fired := fired ++ [{ name := "activated_without_activate", detail := mkObj [("val", jn v.idx)] }]
    pure (s', mkObj [("statuses", allJson s')], fired)
  | _ => throw s!"unknown op {op}"

def initSt (j : Json) : St :=
  { st := fun _ => VS.initial, n := (jnat j "n").toOption.getD 3 }

/-- the model's state is a function of the inputs only (it IS the specification's bookkeeping): after a DIFF the
    monitors keep watching as long as both sides still agree on who is active -/
def resync (_pre post : St) (j : Json) : Except String St := do
  let out ← jget j "out"
  match (out.getObjVal? "status").toOption with
  | some sj =>
    let vs ← parseVS sj
    let v := (jnat j "val").toOption.getD 0
    if vs.active == (post.st v).active then pure post else throw "activity differs"
  | none => pure post

def main : IO UInt32 := runDriver { init := initSt, step := step, resync := some resync }
