/- Driver for C13: oracle data-request fees (Model/Fees) and signing fees (Drivers/TssLib). The reset line's
   "kind" selects the family of the case. -/
import Drivers.TssLib
import BandVerif.Model.Fees

open Lean BandVerif BandVerif.Fees

structure St where
  tss : TssLib.St
  fees : State
  isFees : Bool

def coinsJson (s : State) (c : Coins) : Json := jl (s.denoms.map fun d => jn (c d))

def feeStep (s : State) (j : Json) : Except String (State × Json × List Fired) := do
  let out := (j.getObjVal? "out").toOption.getD Json.null
  let parse (x : Json) (k : String) : Except String Coins := do
    let l ← jnatList x k
    pure fun d => l.getD (s.denoms.idxOf d) 0
  let payer ← jnat j "payer"
  let ask ← jnat j "ask"
  let limit ← parse j "limit"
  let srcs ← (← jarr j "sources").mapM fun e => do
    pure ({ fee := ← parse e "fee", treasury := ← jnat e "treasury" } : Source)
  let nacct ← jnat j "nacct"
  let (s', total, remaining, e) := requestFees s payer ask limit srcs
  let code := match e with
    | .ok => "" | .notEnoughFee => Generated.Err.oracle_ErrNotEnoughFee | .insufficientFunds => "sdk/5"
  let mout := mkObj [("err", js code), ("bal", jl ((List.range nacct).map fun a => coinsJson s (s'.bal a))),
    ("remaining", if e == .ok then coinsJson s remaining else Json.null)]
  -- spec monitors on the implementation: exact cost, within the limit, nothing moves on rejection
  let mut fired : List Fired := []
  let ierr ← jstr out "err"
  let ibal ← (← jarr out "bal").mapM fun r => match r with
    | .arr xs => xs.toList.mapM asNat
    | _ => throw "bad bal"
  let cost : Coins := fun d => (srcs.map fun x => x.fee d * ask).foldl (· + ·) 0
  if ierr == "" then
    let payerAfter := ibal.getD payer []
    -- fees of sources whose treasury is the payer itself come straight back
    let costOthers : Coins := fun d => ((srcs.filter (·.treasury != payer)).map fun x => x.fee d * ask).foldl (· + ·) 0
    if payerAfter != s.denoms.map (fun d => s.bal payer d - costOthers d) then
      fired := fired ++ [{ name := "data_request_cost_not_exact", detail := mkObj [("after", jl (payerAfter.map jn)), ("cost", coinsJson s cost)] }]
    if !(geAll s limit cost) then
      fired := fired ++ [{ name := "data_request_cost_above_limit", detail := mkObj [("cost", coinsJson s cost), ("limit", coinsJson s limit)] }]
    for t in (srcs.map (·.treasury)).eraseDups do
      if t != payer then
        let share : Coins := fun d => ((srcs.filter (·.treasury == t)).map fun x => x.fee d * ask).foldl (· + ·) 0
        if ibal.getD t [] != s.denoms.map (fun d => s.bal t d + share d) then
          fired := fired ++ [{ name := "treasury_share_not_exact", detail := mkObj [("treasury", jn t)] }]
  else
    if ibal != (List.range nacct).map (fun a => s.denoms.map (s.bal a)) then
      fired := fired ++ [{ name := "rejected_request_moved_coins", detail := Json.null }]
    -- a request the payer could afford but whose fees exceed the caller's limit in some denom is refused BY THE FEE CHECK
    -- (not by whatever happens to fail later once the coins have been taken)
    if !(geAll s limit cost) && geAll s (s.bal payer) cost && ierr != Generated.Err.oracle_ErrNotEnoughFee then
      fired := fired ++ [{ name := "over_limit_request_not_refused_by_the_fee_check", detail := mkObj [("err", js ierr), ("cost", coinsJson s cost), ("limit", coinsJson s limit)] }]
    if geAll s limit cost && geAll s (s.bal payer) cost && (ierr == Generated.Err.oracle_ErrNotEnoughFee || ierr == "sdk/5") then
      fired := fired ++ [{ name := "affordable_request_rejected_for_fees", detail := mkObj [("err", js ierr)] }]
  pure (s', mout, fired)

def step (st : St) (j : Json) : Except String (St × Json × List Fired) := do
  if st.isFees then
    let (s', o, f) ← feeStep st.fees j
    pure ({ st with fees := s' }, o, f)
  else
    let (t', o, f) ← TssLib.step st.tss j
    pure ({ st with tss := t' }, o, f)

def initSt (j : Json) : St :=
  let kind := (jstr j "kind").toOption.getD "tss"
  let denoms := (jstrList j "denoms").toOption.getD ["uband"]
  let bals : List (List Nat) := match jarr j "bal" with
    | .ok l => l.map fun r => match r with
      | .arr xs => xs.toList.map fun x => (asNat x).toOption.getD 0
      | _ => []
    | _ => []
  { tss := TssLib.initSt j, isFees := kind == "fees",
    fees := { bal := fun a d => (bals.getD a []).getD (denoms.idxOf d) 0, denoms := denoms } }

def main : IO UInt32 := runDriver { init := initSt, step := step }
