/- Driver for C12: rebuilds the relay proof with the model from the raw node data and verifies the
   implementation's proof with the bridge algorithm against the committed block. -/
import BandVerif.Common.Driver
import BandVerif.Model.Relay
import BandVerif.Exec.Sha256
import BandVerif.Exec.Keccak
import BandVerif.Exec.Secp256k1
import BandVerif.Generated.StoreKeys

open Lean BandVerif BandVerif.Relay

def hexVal (c : Char) : Nat :=
  if '0' ≤ c ∧ c ≤ '9' then c.toNat - '0'.toNat else if 'a' ≤ c ∧ c ≤ 'f' then c.toNat - 'a'.toNat + 10 else 0
def ofHexGo : List Char → List Nat
  | a :: b :: rest => (hexVal a * 16 + hexVal b) :: ofHexGo rest
  | _ => []
def ofHex (s : String) : Bytes := ofHexGo s.toList
def toHex (l : Bytes) : String := Keccak.toHex l
def jhex (j : Json) (k : String) : Except String Bytes := do pure (ofHex (← jstr j k))

def H (b : Bytes) : Bytes := (Exec.sha256 (ByteArray.mk (b.map (·.toUInt8)).toArray)).toList.map (·.toNat)

def parseSteps (ep : Json) : Except String (List Step) := do
  (← jarr ep "path").mapM fun e => match e with
    | .arr #[a, b] => do pure { pre := ofHex (← asStr a), suf := ofHex (← asStr b) }
    | _ => throw "bad step"

def parseHeader (h : Json) : Except String Header := do
  pure { versionBlock := ← jnat h "vb", versionApp := ← jnat h "va", chainID := ← jhex h "chainID", height := ← jnat h "height",
         sec := ← jnat h "sec", nanos := ← jnat h "nanos", lbHash := ← jhex h "lbHash", lbTotal := ← jnat h "lbTotal", lbPsh := ← jhex h "lbPsh",
         lastCommitHash := ← jhex h "lastCommitHash", dataHash := ← jhex h "dataHash", valsHash := ← jhex h "valsHash",
         nextValsHash := ← jhex h "nextValsHash", consHash := ← jhex h "consHash", appHash := ← jhex h "appHash",
         lastResHash := ← jhex h "lastResHash", evHash := ← jhex h "evHash", proposer := ← jhex h "proposer" }

def msJson (m : MSProof) : Json :=
  jl ([m.oracleIAVLStateHash, m.mint, m.paramsToRestake, m.rollingseedToTransfer, m.tssToUpgrade, m.authToIcahost].map fun b => js (toHex b))

def partsJson (p : Parts) : Json :=
  mkObj [("versionChain", js (toHex p.versionChain)), ("height", jn p.height), ("sec", jn p.sec), ("nanos", jn p.nanos),
    ("lastBlockOther", js (toHex p.lastBlockOther)), ("nextValsCons", js (toHex p.nextValsCons)), ("lastRes", js (toHex p.lastRes)),
    ("evProposer", js (toHex p.evProposer))]

def pathsJson (ps : List IPath) : Json :=
  jl (ps.map fun p => jl [jb p.isDataOnRight, jn p.height, jn p.size, jn p.version, js (toHex p.sibling)])

def ethAddr (Q : Secp.Point) : Bytes :=
  match Q with
  | none => []
  | some (x, y) => (Keccak.keccak256 (Secp.be32 x ++ Secp.be32 y)).drop 12

def bytesLt : Bytes → Bytes → Bool
  | [], [] => false
  | [], _ => true
  | _, [] => false
  | a :: as, b :: bs => if a < b then true else if a > b then false else bytesLt as bs

/-- recover the signer of a vote message with the bridge's algorithm; v is 27/28 -/
def recoverSigner (msg r s : Bytes) (v : Nat) : Bytes :=
  ethAddr (Secp.recover (Secp.fromBytes (H msg)) (Secp.fromBytes r) (Secp.fromBytes s) (v - 27))

def step (_ : Unit) (j : Json) : Except String (Unit × Json × List Fired) := do
  let op ← jstr j "op"
  if op != "proof" then throw s!"unknown op {op}"
  let out := (j.getObjVal? "out").toOption.getD Json.null
  let mut fired : List Fired := []
  let kind ← jstr j "kind"
  let hd ← parseHeader (← jget j "header")
  let cm ← jget j "commit"
  let round ← jnat cm "round"
  let cHash ← jhex cm "hash"
  let total ← jnat cm "total"
  let psh ← jhex cm "psh"
  let iavl ← jget j "iavl"
  let msep ← jget j "msep"
  let isteps ← parseSteps iavl
  let msteps ← parseSteps msep
  let value ← jhex iavl "value"
  -- ground truth: validators (eth address, power, pre-committed?)
  let vals ← (← jarr j "vals").mapM fun e => match e with
    | .arr #[a, p, c] => do pure (ofHex (← asStr a), ← asNat p, (match c with | .bool b => b | _ => false))
    | _ => throw "bad val"
  -- ===== the model's own proof, from the raw node data =====
  let ms := getMultiStoreProof (← jhex msep "value") msteps
  let parts := headerParts H hd
  let (pre, suf) := commonVote hd.height round total psh
  let mpaths := getMerklePaths isteps
  let mver := leafVersion (← jhex iavl "leafPrefix")
  let csigs ← (← jarr cm "sigs").mapM fun e => match e with
    | .arr #[f, _, sec, nanos, sig] => do pure ((← asNat f), (← asInt sec).toNat, (← asNat nanos), ofHex (← asStr sig))
    | _ => throw "bad commit sig"
  let mut msigs : List (Bytes × Json) := []
  for (flag, sec, nanos, sig) in csigs do
    if flag == 2 then
      let ts := encodeTime sec nanos
      let msg := voteMessage pre suf cHash ts hd.chainID
      let r := sig.take 32
      let s := sig.drop 32
      -- `recoverETHAddress`: the recovery id whose key belongs to the validator set
      let cand := [27, 28].filterMap fun v =>
        let a := recoverSigner msg r s v
        if vals.any (fun (va, _, _) => va == a) then some (a, v) else none
      match cand.head? with
      | some (a, v) => msigs := msigs ++ [(a, jl [js (toHex r), js (toHex s), jn v, js (toHex ts)])]
      | none => msigs := msigs ++ [([], jl [js (toHex r), js (toHex s), jn 0, js (toHex ts)])]
      -- model consistency: the rebuilt message is cometbft's canonical vote
      if msg != canonicalVoteBytes hd.height round cHash total psh sec nanos hd.chainID then
        fired := fired ++ [{ name := "vote_bytes_not_canonical_vote", detail := mkObj [("msg", js (toHex msg))] }]
  -- model consistency: every inner op of the node's proof is an IAVL inner node with the proven child cut out (the shape
  -- `iavl_path_sound` quantifies over), and the leaf op's prefix is height 0, size 1, the leaf's version
  match mpaths with
  | some ps =>
    let badSteps := (isteps.zip ps).filter fun (s, p) => iavlStep p.height p.size p.version p.sibling p.isDataOnRight != s
    if !badSteps.isEmpty then
      fired := fired ++ [{ name := "proof_step_not_an_iavl_inner_node", detail := mkObj [("count", jn badSteps.length)] }]
  | none => pure ()
  match mver with
  | some ver =>
    if [0, 2] ++ varintNonneg ver != (← jhex iavl "leafPrefix") then
      fired := fired ++ [{ name := "proof_leaf_prefix_not_an_iavl_leaf", detail := mkObj [("version", jn ver)] }]
  | none => pure ()
  let sorted := msigs.toArray.qsort (fun a b => bytesLt a.1 b.1) |>.toList
  let mout := match mpaths, mver with
    | some ps, some ver =>
      mkObj ([("err", js ""), ("ms", msJson ms), ("parts", partsJson parts), ("common", jl [js (toHex pre), js (toHex suf)]),
        ("sigs", jl (sorted.map (·.2))), ("version", jn ver), ("paths", pathsJson ps), ("blockHeight", jn hd.height)] ++
        (if kind == "count" then [("count", jn (Secp.fromBytes value))]
         else [("result", js (toHex value)), ("resultRid", (out.getObjVal? "resultRid").toOption.getD Json.null)]))
    | _, _ => mkObj [("err", js "model: malformed ICS-23 proof")]
  -- ===== bridge verification of the IMPLEMENTATION's proof against the committed block =====
  let ierr := (jstr out "err").toOption.getD "?"
  -- the EVM proof bytes, decoded by the harness with the bridge contract's layout, must carry exactly the proof above
  let ievm := out.getObjVal? "evm"
  let mout := match ievm with
    | .ok e => mout.setObjVal! "evm" e
    | _ => mout
  match ievm with
  | .ok e =>
    let keys := ["err", "ms", "parts", "common", "sigs", "version", "paths", "blockHeight"] ++ (if kind == "count" then ["count"] else ["result", "resultRid"])
    let bad := keys.filter fun k => !jsonEq ((out.getObjVal? k).toOption.getD Json.null) ((e.getObjVal? k).toOption.getD Json.null)
    if !bad.isEmpty then
      fired := fired ++ [{ name := "evm_proof_bytes_do_not_carry_the_proof", detail := mkObj [("fields", jl (bad.map js)),
        ("evmErr", (e.getObjVal? "err").toOption.getD Json.null)] }]
  | _ => pure ()
  if ierr != "" then
    fired := fired ++ [{ name := "no_proof_for_committed_data", detail := js ierr }]
  else
    let ims ← jstrList out "ms"
    let imsB := ims.map ofHex
    let imsP : MSProof := { oracleIAVLStateHash := imsB.getD 0 [], mint := imsB.getD 1 [], paramsToRestake := imsB.getD 2 [],
                            rollingseedToTransfer := imsB.getD 3 [], tssToUpgrade := imsB.getD 4 [], authToIcahost := imsB.getD 5 [] }
    let ipathsJ ← jarr out "paths"
    let ipaths ← ipathsJ.mapM fun e => match e with
      | .arr #[r, h, sz, v, sib] => do
        pure ({ isDataOnRight := (match r with | .bool b => b | _ => false), height := ← asNat h, size := ← asNat sz, version := ← asNat v, sibling := ofHex (← asStr sib) } : IPath)
      | _ => throw "bad path"
    let iver ← jnat out "version"
    let icount := (jnat out "count").toOption.getD 0
    let iresult := (jhex out "result").toOption.getD []
    let leaf := if kind == "count" then countLeafHash H iver icount
                else resultLeafHash H iver ((jnat j "rid").toOption.getD 0) iresult
    if kind == "result" && iresult != value then
      fired := fired ++ [{ name := "proved_result_is_not_the_stored_result", detail := Json.null }]
    if kind == "count" && be64 icount != value then
      fired := fired ++ [{ name := "proved_count_is_not_the_stored_count", detail := Json.null }]
    let oroot := iavlRoot H leaf ipaths
    if oroot != imsP.oracleIAVLStateHash then
      fired := fired ++ [{ name := "iavl_path_does_not_reach_oracle_root", detail := mkObj [("got", js (toHex oroot)), ("want", js (toHex imsP.oracleIAVLStateHash))] }]
    let ah := appHash H imsP
    if ah != hd.appHash then
      fired := fired ++ [{ name := "multistore_proof_does_not_reach_app_hash", detail := mkObj [("got", js (toHex ah)), ("want", js (toHex hd.appHash))] }]
    let ip ← jget out "parts"
    let iparts : Parts := { versionChain := ← jhex ip "versionChain", height := ← jnat ip "height", sec := ← jnat ip "sec", nanos := ← jnat ip "nanos",
                            lastBlockOther := ← jhex ip "lastBlockOther", nextValsCons := ← jhex ip "nextValsCons", lastRes := ← jhex ip "lastRes",
                            evProposer := ← jhex ip "evProposer" }
    let bh := blockHash H iparts hd.appHash
    if bh != cHash then
      fired := fired ++ [{ name := "header_parts_do_not_give_block_hash", detail := mkObj [("got", js (toHex bh)), ("want", js (toHex cHash))] }]
    if iparts.height != hd.height then
      fired := fired ++ [{ name := "header_parts_carry_wrong_height", detail := Json.null }]
    let icommon ← jstrList out "common"
    let ipre := ofHex (icommon.getD 0 "")
    let isuf := ofHex (icommon.getD 1 "")
    let isigs ← jarr out "sigs"
    let mut last : Bytes := []
    let mut power := 0
    let mut idx := 0
    for e in isigs do
      match e with
      | .arr #[r, s, v, ts] =>
        let tsb := ofHex (← asStr ts)
        let msg := voteMessage ipre isuf cHash tsb hd.chainID
        let a := recoverSigner msg (ofHex (← asStr r)) (ofHex (← asStr s)) (← asNat v)
        match vals.find? (fun (va, _, _) => va == a) with
        | some (_, p, committed) =>
          if !committed then
            fired := fired ++ [{ name := "signature_recovers_validator_that_did_not_precommit", detail := mkObj [("index", jn idx)] }]
          power := power + p
        | none =>
          fired := fired ++ [{ name := "signature_does_not_recover_a_validator", detail := mkObj [("index", jn idx), ("recovered", js (toHex a))] }]
        if idx > 0 && !bytesLt last a then
          fired := fired ++ [{ name := "signers_not_strictly_ascending", detail := mkObj [("index", jn idx)] }]
        last := a
        idx := idx + 1
      | _ => throw "bad sig"
    let totalPower := (vals.map fun (_, p, _) => p).foldl (· + ·) 0
    if power * 3 ≤ totalPower * 2 then
      fired := fired ++ [{ name := "recovered_power_not_above_two_thirds", detail := mkObj [("power", jn power), ("total", jn totalPower)] }]
  -- ===== the application's actual stores =====
  let stores ← (← jarr j "stores").mapM fun e => match e with
    | .arr #[n, h] => do pure ((← asStr n), ofHex (← asStr h))
    | _ => throw "bad store"
  if stores.map (·.1) != Generated.StoreKeys.sorted then
    fired := fired ++ [{ name := "mounted_stores_differ_from_generated", detail := jl (stores.map fun s => js s.1) }]
  let truth := simpleRoot H (stores.map fun (n, h) => storeLeaf H (n.toUTF8.toList.map (·.toNat)) h)
  if truth != hd.appHash then
    throw s!"model of the commit-info tree does not reproduce the app hash: {toHex truth} vs {toHex hd.appHash}"
  if headerHash H hd != cHash then
    throw s!"model of the header hash does not reproduce the block id: {toHex (headerHash H hd)} vs {toHex cHash}"
  pure ((), mout, fired)

def main : IO UInt32 := runDriver { init := fun _ => (), step := step }
