/- Driver for C18: bandtss group transition state machine. -/
import BandVerif.Common.Driver
import BandVerif.Model.Transition
import BandVerif.Generated.Errors

open Lean BandVerif BandVerif.Transition

def errCode : Err → String
  | .ok => ""
  | .invalidSigner => "gov/13"
  | .invalidExecTime => Generated.Err.bandtss_ErrInvalidExecTime
  | .inProgress => Generated.Err.bandtss_ErrTransitionInProgress
  | .sameGroup => Generated.Err.bandtss_ErrInvalidGroupID
  | .groupNotFound => Generated.Err.tss_ErrGroupNotFound
  | .incomingNotActive => Generated.Err.bandtss_ErrInvalidIncomingGroup
  | .memberExists => Generated.Err.bandtss_ErrMemberAlreadyExists
  | .createGroupFailed => "createGroupFailed"

def trJson : Option Tr → Json
  | none => Json.null
  | some t => jl [jn t.status, ji t.execTime, jn t.signingID, jn t.incoming, jn t.current, jb t.isForce]

def pairLe (a b : Nat × Nat) : Bool := decide (a.2 < b.2) || (decide (a.2 = b.2) && decide (a.1 ≤ b.1))

def dump (s : State) : Json :=
  mkObj [("current", jn s.currentGroup), ("transition", trJson s.transition),
    ("members", jl ((s.bmembers.mergeSort pairLe).map fun (a, g) => jl [jn g, jn a]))]

def parseEvent (j : Json) : Except String Event := do
  match ← jstr j "e" with
  | "creationCompleted" => pure (.creationCompleted (← jnat j "gid") (← jbool j "signOk") (← jnat j "sid"))
  | "creationFailed" => pure (.creationFailed (← jnat j "gid"))
  | "creationExpired" => pure (.creationExpired (← jnat j "gid"))
  | "signingCompleted" => pure (.signingCompleted (← jnat j "sid"))
  | "signingFailed" => pure (.signingFailed (← jnat j "sid"))
  | x => throw s!"unknown event {x}"

def step (s : State) (j : Json) : Except String (State × Json × List Fired) := do
  let op ← jstr j "op"
  let out := (j.getObjVal? "out").toOption.getD Json.null
  let mut fired : List Fired := []
  let icur := (jnat out "current").toOption.getD 0
  let itr := (out.getObjVal? "transition").toOption.getD Json.null
  let ierr := (jstr out "err").toOption.getD ""
  match op with
  | "propose" =>
    let ierrRaw := ierr
    let created : Option (Nat × List Nat) := match j.getObjVal? "created" with
      | .ok (.arr #[g, .arr ms]) => some ((asNat g).toOption.getD 0, ms.toList.map fun x => (asNat x).toOption.getD 0)
      | _ => none
    let (s', e) := propose s (← jbool j "authorityOk") (← jint j "now") (← jint j "execTime") created
    -- CreateGroup's own validation errors are env: echo the implementation's code for them
    let code := if e == .createGroupFailed then ierrRaw else errCode e
    if ierr == "" && (s.transition.isSome || !(execTimeOk s (← jint j "now") (← jint j "execTime"))) then
      fired := fired ++ [{ name := "proposal_accepted_during_transition_or_outside_window", detail := Json.null }]
    if ierr == "" && !(← jbool j "authorityOk") then
      fired := fired ++ [{ name := "transition_scheduled_without_governance_authority", detail := mkObj [("kind", js "proposal")] }]
    pure (s', (dump s').setObjVal! "err" (js code), fired)
  | "force" =>
    let (s', e) := force s (← jbool j "authorityOk") (← jint j "now") (← jint j "execTime") (← jnat j "gid") (← jbool j "exists")
    if ierr == "" && (s.transition.isSome || !(execTimeOk s (← jint j "now") (← jint j "execTime")) || !s.groupActive (← jnat j "gid")) then
      fired := fired ++ [{ name := "forced_transition_accepted_wrongly", detail := Json.null }]
    if ierr == "" && !(← jbool j "authorityOk") then
      fired := fired ++ [{ name := "transition_scheduled_without_governance_authority", detail := mkObj [("kind", js "forced")] }]
    pure (s', (dump s').setObjVal! "err" (js (errCode e)), fired)
  | "setGroup" =>  -- harness bookkeeping: a tss group created outside a transition (members, active)
    let gid ← jnat j "gid"
    let ms ← jnatList j "members"
    let act ← jbool j "active"
    let cur ← jbool j "makeCurrent"
    let s1 : State := { s with groupMembers := fun g => if g = gid then ms else s.groupMembers g,
                               groupActive := fun g => if g = gid then act else s.groupActive g }
    let s2 := if cur then { s1 with currentGroup := gid, bmembers := s1.bmembers ++ ms.map fun a => (a, gid) } else s1
    pure (s2, dump s2, [])
  | "tssEnd" =>
    let evs ← (← jarr j "events").mapM parseEvent
    let now ← jint j "now"
    match onEvents now evs s with
    | none => pure (s, mkObj [("panic", jb true)], [])
    | some s' =>
      -- a transition leaves WAITING_SIGN for WAITING_EXECUTION only on completion of ITS OWN hand-over signing
      match s.transition, itr with
      | some t, .arr #[ist, _, _, _, _, _] =>
        let handed := evs.any fun e => match e with | .signingCompleted sid => sid == t.signingID | _ => false
        if t.status == stWaitingSign && (asNat ist).toOption.getD 0 == stWaitingExec && !handed then
          fired := fired ++ [{ name := "transition_advanced_without_its_handover_signature", detail := mkObj [("handoverSid", jn t.signingID)] }]
      | _, _ => pure ()
      if icur ≠ s.currentGroup then
        fired := fired ++ [{ name := "current_group_changed_outside_execution", detail := mkObj [("from", jn s.currentGroup), ("to", jn icur)] }]
      -- a scheduled transition disappears only for a reason of its own (its group's creation failed or expired, its
      -- hand-over signing failed): events about other groups or signings leave it alone
      -- …and it does NOT survive them: an incoming group whose key generation failed or expired never becomes the signing group
      if s.transition.isSome && s'.transition.isNone && itr != Json.null then
        fired := fired ++ [{ name := "transition_survives_failed_key_generation_or_handover", detail := mkObj [("transition", itr)] }]
      if s'.transition.isSome && itr == Json.null then
        fired := fired ++ [{ name := "scheduled_transition_dropped_without_cause", detail := mkObj [("transition", trJson s'.transition)] }]
      pure (s', dump s', fired)
  | "bandtssEnd" =>
    let now ← jint j "now"
    let s' := endBlock s now
    -- the signing group changes only by executing a WAITING_EXECUTION transition at/after its exec time
    if icur ≠ s.currentGroup then
      let ok := match s.transition with
        | some t => t.status == stWaitingExec && decide (t.execTime ≤ now) && icur == t.incoming
        | none => false
      if !ok then
        fired := fired ++ [{ name := "group_changed_without_completed_scheduled_transition", detail := mkObj [("from", jn s.currentGroup), ("to", jn icur)] }]
      -- after execution the member list is exactly the new group's members
      let ims ← (← jarr out "members").mapM fun e => match e with
        | .arr #[g, a] => do pure ((← asNat g), (← asNat a))
        | _ => throw "bad member"
      let want := ((s.groupMembers icur).map fun a => (icur, a))
      if !(ims.all (want.contains ·) && want.all (ims.contains ·)) then
        fired := fired ++ [{ name := "members_ne_new_group_after_execution", detail := out }]
    else
      match s.transition with
      | some t =>
        if decide (t.execTime ≤ now) && itr != Json.null then
          fired := fired ++ [{ name := "due_transition_neither_executed_nor_dropped", detail := out }]
      | none => pure ()
    pure (s', dump s', fired)
  | "request" =>
    -- C18 / C13: during WAITING_EXECUTION the request also goes (best effort, unpaid) to the incoming group
    let obs ← jget j "obs"
    let incSid ← jnat obs "incomingSid"
    let incGroup ← jnat obs "incomingGroupOfSid"
    let curSid ← jnat obs "currentSid"
    let paid ← jint obs "paid"
    let fee ← jint j "cost"
    if incSid ≠ 0 ∧ incGroup ≠ incomingGroup s then
      fired := fired ++ [{ name := "incoming_signing_for_wrong_group", detail := obs }]
    if incSid ≠ 0 ∧ incomingGroup s = 0 then
      fired := fired ++ [{ name := "incoming_signing_outside_waiting_execution", detail := obs }]
    if ierr == "" ∧ curSid ≠ 0 ∧ paid ≠ fee then
      fired := fired ++ [{ name := "request_fee_not_current_group_cost_only", detail := obs }]
    if ierr ≠ "" ∧ paid ≠ 0 then
      fired := fired ++ [{ name := "rejected_request_moved_coins", detail := obs }]
    -- an accepted request is put to SOME group: with no current group and nothing assigned in the incoming one there is
    -- nobody to sign, and the caller (a tunnel, the oracle) would take the failed request for a success
    if ierr == "" ∧ curSid == 0 ∧ incSid == 0 then
      fired := fired ++ [{ name := "request_accepted_without_any_group_signing", detail := obs }]
    pure (s, (dump s).setObjVal! "err" (js ierr), fired)
  | "payout" =>
    -- C13: completed signings pay only current-group signers
    let delta ← jint (← jget j "obs") "escrowDelta"
    let want ← jint j "expected"
    if delta ≠ want then
      fired := fired ++ [{ name := "paid_for_incoming_or_unpaid_for_current", detail := mkObj [("delta", ji delta), ("expected", ji want)] }]
    pure (s, dump s, fired)
  | _ => throw s!"unknown op {op}"

def initSt (j : Json) : State :=
  { currentGroup := 0, transition := none, groupMembers := fun _ => [], groupActive := fun _ => false, bmembers := [],
    minDur := (jint j "minDur").toOption.getD 0, maxDur := (jint j "maxDur").toOption.getD 0 }

def main : IO UInt32 := runDriver { init := initSt, step := step, compare := true }
