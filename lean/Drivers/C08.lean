/- Driver for C08: tunnel packet production; full-state comparison + spec monitors. -/
import BandVerif.Common.Driver
import BandVerif.Model.Tunnel
import BandVerif.Model.Encoding
import BandVerif.Generated.Errors

open Lean BandVerif BandVerif.Tunnel

def hexVal (c : Char) : Nat :=
  if '0' ≤ c ∧ c ≤ '9' then c.toNat - '0'.toNat else if 'a' ≤ c ∧ c ≤ 'f' then c.toNat - 'a'.toNat + 10
  else if 'A' ≤ c ∧ c ≤ 'F' then c.toNat - 'A'.toNat + 10 else 0
def ofHexGo : List Char → List Nat
  | a :: b :: rest => (hexVal a * 16 + hexVal b) :: ofHexGo rest
  | _ => []
def ofHex (s : String) : List Nat := ofHexGo s.toList

structure St where
  s : State
  n : Nat
  /-- spec-side tracker, independent of the implementation's LastInterval: time of the last FULL send
      (a packet produced when the interval had elapsed, or a manual trigger) per tunnel -/
  lastFull : Nat → Int := fun _ => 0

def priceJson (p : Price) : Json := jl [js p.sid, jn p.status, jn p.price, ji p.ts]
def parsePrice (j : Json) : Except String Price := do
  match j with
  | .arr #[a, b, c, d] => pure { sid := ← asStr a, status := ← asNat b, price := ← asNat c, ts := ← asInt d }
  | _ => throw "bad price"
def parsePrices (j : Json) (k : String) : Except String (List Price) := do (← jarr j k).mapM parsePrice

def dump (st : St) : Json :=
  let s := st.s
  mkObj [
    ("tunnels", jl ((List.range st.n).map fun i =>
      match s.tunnels (i + 1) with
      | none => Json.null
      | some t => mkObj [("active", jb t.isActive), ("seq", jn t.sequence), ("latest", jl (t.latest.map priceJson)),
          ("lastInterval", ji t.lastInterval), ("payer", jn (s.payerBal (i + 1))),
          ("packets", jl (t.packets.map fun (q, ps) => jl [jn q, jl (ps.map priceJson)]))])),
    ("totalBase", jn s.totalBaseFees), ("activeIdx", jl (s.activeIdx.map jn))]

def errCode : TErr → String
  | .ok => ""
  | .notFound => Generated.Err.tunnel_ErrTunnelNotFound
  | .invalidCreator => Generated.Err.tunnel_ErrInvalidTunnelCreator
  | .inactive => Generated.Err.tunnel_ErrInactiveTunnel
  | .insufficientFund => Generated.Err.tunnel_ErrInsufficientFund
  | .routeFailed => "routeFailed"

structure ITun where
  active : Bool
  seq : Nat
  payer : Nat
  latest : List Price
  packets : List (Nat × List Price)
  lastInterval : Int := 0

def parseTun (t : Json) : Except String ITun := do
  let pk ← (← jarr t "packets").mapM fun e => match e with
    | .arr #[q, .arr ps] => do pure ((← asNat q), (← ps.toList.mapM parsePrice))
    | _ => throw "bad packet"
  pure { active := ← jbool t "active", seq := ← jnat t "seq", payer := ← jnat t "payer", latest := ← parsePrices t "latest", packets := pk, lastInterval := ← jint t "lastInterval" }

/-- after a DIFF: continue from the implementation's own state (static config kept) -/
def resync (_pre st : St) (j : Json) : Except String St := do
  let out ← jget j "out"
  let itun ← jarr out "tunnels"
  let mut s := st.s
  for i in List.range st.n do
    let id := i + 1
    match st.s.tunnels id, itun.getD i Json.null with
    | some t, it =>
      if it != Json.null then
        let x ← parseTun it
        let t' : T := { t with isActive := x.active, sequence := x.seq, latest := x.latest, packets := x.packets, lastInterval := x.lastInterval }
        let s0 := s
        s := { s0 with tunnels := fun k => if k = id then some t' else s0.tunnels k,
                       payerBal := fun k => if k = id then x.payer else s0.payerBal k }
    | none, _ => pure ()
  s := { s with totalBaseFees := ← jnat out "totalBase", activeIdx := ← jnatList out "activeIdx" }
  pure { st with s := s }

def step (st : St) (j : Json) : Except String (St × Json × List Fired) := do
  let op ← jstr j "op"
  let out := (j.getObjVal? "out").toOption.getD Json.null
  let s := st.s
  let mut fired : List Fired := []
  -- a stored packet always carries the receipt of the route that accepted it (a packet is persisted only when the send
  -- succeeded): a receipt-less stored packet means a failed or panicked send was treated as a success
  let noRc := match (j.getObjVal? "obs").toOption.bind (fun o => (o.getObjVal? "noReceipt").toOption) with
    | some (.arr a) => a.toList
    | _ => []
  if !noRc.isEmpty then
    fired := fired ++ [{ name := "packet_stored_without_route_receipt", detail := jl noRc }]
  -- what the signing group was asked to sign for a stored TSS packet decodes to THAT packet: its sequence number, its
  -- creation time and as many prices (message = originator hash 32 ‖ time 8 ‖ signing id 8 ‖ selector 4 ‖ tag 4 ‖ ABI)
  let signed := match (j.getObjVal? "obs").toOption.bind (fun o => (o.getObjVal? "signed").toOption) with
    | some (.arr a) => a.toList
    | _ => []
  for e in signed do
    match e with
    | .arr #[tid, q, ca, np, m] =>
      let msg := ofHex (← asStr m)
      match BandVerif.Enc.decPacket (msg.drop 56) with
      | some (dseq, dps, dts) =>
        if dseq != (← asNat q) || dts != (← asInt ca) || dps.length != (← asNat np) then
          fired := fired ++ [{ name := "signed_content_is_not_the_stored_packet", detail := mkObj [("tunnel", tid), ("sequence", q),
            ("signedSequence", jn dseq), ("signedTime", ji dts), ("signedPrices", jn dps.length)] }]
      | none =>
        fired := fired ++ [{ name := "signed_content_is_not_the_stored_packet", detail := mkObj [("tunnel", tid), ("sequence", q), ("undecodable", jb true)] }]
    | _ => throw "bad signed entry"
  match op with
  | "setup" =>
    -- harness bookkeeping: a tunnel as created/activated/funded through the real messages
    let id ← jnat j "id"
    let sds ← (← jarr j "sds").mapM fun e => match e with
      | .arr #[a, b, c] => do pure ({ sid := ← asStr a, soft := ← asNat b, hard := ← asNat c } : SD)
      | _ => throw "bad sd"
    let t : T := { creator := ← jnat j "creator", isActive := ← jbool j "active", sequence := 0, interval := ← jnat j "interval", sds := sds,
                   latest := [], lastInterval := ← jint j "lastInterval", isTSS := ← jbool j "isTSS", packets := [] }
    let s' : State := { s with tunnels := fun i => if i = id then some t else s.tunnels i,
                               payerBal := fun i => if i = id then (jnat j "payer").toOption.getD 0 else s.payerBal i,
                               activeIdx := if t.isActive then s.activeIdx ++ [id] else s.activeIdx }
    let lf := t.lastInterval
    let st' := { s := s', n := max st.n id, lastFull := fun i => if i = id then lf else st.lastFull i }
    pure (st', dump st', [])
  | "fund" =>
    let id ← jnat j "id"
    let s' := { s with payerBal := fun i => if i = id then s.payerBal id + (jnat j "amt").toOption.getD 0 else s.payerBal i }
    pure ({ st with s := s' }, dump { st with s := s' }, [])
  | "setActive" =>
    -- MsgActivate / MsgDeactivate by the creator (the gate itself is C17's): an accepted switch changes the flag and the
    -- index (store order = ascending id) and NOTHING else — in particular not the time of the last full send
    let id ← jnat j "id"
    let on ← jbool j "active"
    let ierr := (jstr out "err").toOption.getD ""
    let s' := match s.tunnels id with
      | some t =>
        if ierr != "" then s
        else { s with tunnels := fun i => if i = id then some { t with isActive := on } else s.tunnels i,
                      activeIdx := if on then ((s.activeIdx.filter (· ≠ id)) ++ [id]).toArray.qsort (· < ·) |>.toList
                                   else s.activeIdx.filter (· ≠ id) }
      | none => s
    let st' := { st with s := s' }
    pure (st', (dump st').setObjVal! "err" (js ierr), [])
  | "fees" =>
    let s' := { s with baseFee := ← jnat j "base", routeFee := ← jnat j "route" }
    pure ({ st with s := s' }, dump { st with s := s' }, [])
  | "endBlock" =>
    let feeds ← parsePrices j "feeds"
    let now ← jint j "now"
    let failed ← jnatList j "routeFailed"
    let s' := endBlock feeds now (fun id => !failed.contains id) s.activeIdx s
    let mut lastFull := st.lastFull
    -- a due packet is refused only for a fault of its route (no group, too few nonces, fee above the limit, no channel)
    match j.getObjVal? "unexplainedFailures" with
    | .ok (.arr xs) =>
      if !xs.isEmpty then
        fired := fired ++ [{ name := "due_packet_refused_without_a_route_fault", detail := Json.arr xs }]
    | _ => pure ()
    -- spec monitors, per tunnel, on the implementation's post-state
    let itun ← jarr out "tunnels"
    for i in List.range st.n do
      let id := i + 1
      match s.tunnels id, itun.getD i Json.null with
      | some t, it =>
        if it != Json.null then
          let x ← parseTun it
          let fee := feeOf s t
          let produced := x.seq > t.sequence
          if !t.isActive && produced then
            fired := fired ++ [{ name := "inactive_tunnel_produced_packet", detail := mkObj [("tunnel", jn id)] }]
          if t.isActive then
            let funded := s.payerBal id ≥ fee
            let due := decide (now ≥ (t.interval : Int) + st.lastFull id)
            if produced && due then
              let lf := lastFull
              lastFull := fun k => if k = id then now else lf k
            let devs := t.sds.map fun sd =>
              let old := ((lookupLast t.latest sd.sid).map (·.price)).getD 0
              let nw := ((lookupLast feeds sd.sid).map (·.price)).getD 0
              (sd, deviationBPS old nw)
            let hardHit := devs.any fun (sd, d) => d ≥ sd.hard
            let should := funded && (due || hardHit) && !t.sds.isEmpty
            if !funded && x.active then
              fired := fired ++ [{ name := "underfunded_tunnel_not_deactivated", detail := mkObj [("tunnel", jn id)] }]
            if produced && !should then
              fired := fired ++ [{ name := "packet_produced_when_not_due", detail := mkObj [("tunnel", jn id)] }]
            if should && !produced && !failed.contains id then
              fired := fired ++ [{ name := "due_packet_not_produced", detail := mkObj [("tunnel", jn id)] }]
            if failed.contains id && (x.payer ≠ s.payerBal id || x.seq ≠ t.sequence || x.latest != t.latest || x.packets.length ≠ t.packets.length) then
              fired := fired ++ [{ name := "failed_production_left_a_trace", detail := mkObj [("tunnel", jn id), ("seq", jn x.seq), ("payer", jn x.payer)] }]
            if produced then
              if x.seq ≠ t.sequence + 1 then
                fired := fired ++ [{ name := "sequence_gap_or_repeat", detail := mkObj [("tunnel", jn id), ("from", jn t.sequence), ("to", jn x.seq)] }]
              if x.payer + fee ≠ s.payerBal id then
                fired := fired ++ [{ name := "fee_not_exactly_base_plus_route_once", detail := mkObj [("tunnel", jn id), ("before", jn (s.payerBal id)), ("after", jn x.payer), ("fee", jn fee)] }]
              -- content: all signals (interval) or exactly those beyond soft/hard deviation, in declaration order
              let want := if due then t.sds.map (·.sid) else (devs.filter fun (sd, d) => d ≥ sd.soft || d ≥ sd.hard).map (·.1.sid)
              let got := ((x.packets.getLast?.map (·.2)).getD []).map (·.sid)
              if got ≠ want then
                fired := fired ++ [{ name := "packet_signals_wrong", detail := mkObj [("tunnel", jn id), ("got", jl (got.map js)), ("want", jl (want.map js))] }]
              -- what was sent becomes the reference of the next deviation check, whatever its status (a price reported as 0 /
              -- not available is a sent value too): otherwise the same move re-triggers a packet and a fee every block
              let sent := (x.packets.getLast?.map (·.2)).getD []
              let stale := sent.filter fun p => !(x.latest.any fun q => q.sid == p.sid && q.status == p.status && q.price == p.price)
              if !stale.isEmpty then
                fired := fired ++ [{ name := "sent_price_did_not_become_the_reference", detail := mkObj [("tunnel", jn id), ("signals", jl (stale.map fun p => js p.sid))] }]
            else if x.active && (x.payer ≠ s.payerBal id || x.seq ≠ t.sequence || x.latest != t.latest) then
              fired := fired ++ [{ name := "failed_or_skipped_production_left_a_trace", detail := mkObj [("tunnel", jn id)] }]
          -- stored packets are exactly 1..sequence
          if x.packets.map (·.1) ≠ (List.range x.seq).map (· + 1) then
            fired := fired ++ [{ name := "packet_sequences_not_1_to_n", detail := mkObj [("tunnel", jn id)] }]
      | none, _ => pure ()
    let st' := { st with s := s', lastFull := lastFull }
    pure (st', dump st', fired)
  | "trigger" =>
    let id ← jnat j "id"
    let prices ← parsePrices j "prices"
    let ierr := (jstr out "err").toOption.getD ""
    let routeOk := !(← jbool j "routeFailed")
    let (s', e) := trigger s id (← jnat j "sender") prices routeOk (← jint j "now")
    let nowT ← jint j "now"
    let st' := { st with s := s', lastFull := if ierr == "" then (fun k => if k = id then nowT else st.lastFull k) else st.lastFull }
    let code := if e == .routeFailed then ierr else errCode e
    if ierr == "" then
      match s.tunnels id with
      | some t =>
        if !(t.creator == (← jnat j "sender") && t.isActive && s.payerBal id ≥ feeOf s t) then
          fired := fired ++ [{ name := "trigger_gate_bypassed", detail := mkObj [("tunnel", jn id)] }]
      | none => fired := fired ++ [{ name := "trigger_gate_bypassed", detail := mkObj [("tunnel", jn id)] }]
    pure (st', (dump st').setObjVal! "err" (js code), fired)
  | _ => throw s!"unknown op {op}"

def initSt (_ : Json) : St :=
  { n := 0, s := { tunnels := fun _ => none, payerBal := fun _ => 0, baseFee := 0, routeFee := 0, totalBaseFees := 0, activeIdx := [] } }

def main : IO UInt32 := runDriver { init := initSt, step := step, resync := some resync }
