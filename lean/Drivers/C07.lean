/- Driver for C07: replays the harness trace through Model/Signal and evaluates the property
   monitors on the IMPLEMENTATION's observations. -/
import BandVerif.Common.Driver
import BandVerif.Model.Signal

open Lean BandVerif BandVerif.Signal

structure St where
  p : Params
  st : State

def parseSigs (j : Json) (k : String) : Except String (List Sig) := do
  (← jarr j k).mapM fun e => do
    match e with
    | .arr #[a, b] => pure { id := (← asStr a), power := (← asInt b) }
    | _ => throw "bad signal"

def totalsJson (st : State) : Json :=
  let ids := st.sigs.mergeSort (fun a b => decide (a ≤ b))
  jl ((ids.filter (fun id => st.totals id ≠ 0)).map (fun id => jl [js id, ji (st.totals id)]))

def indexJson (st : State) : Json :=
  jl ((byPowerDesc st).map (fun e => jl [ji e.1, js e.2]))

def feedsJson (l : List FeedOut) : Json :=
  jl (l.map fun f => jl [js f.id, ji f.power, ji f.interval])

def trueSum (l : List Sig) : Int := l.foldl (fun a s => a + s.power) 0

/-- spec-level check of a current-feed list against totals (independent of the model algorithm). -/
def feedsSpecViolations (p : Params) (st : State) (impl : List (String × Int × Int)) : List String :=
  let cands := (entries st).filter (fun e => e.1 ≥ p.powerStep)
  let inIds := impl.map (·.1)
  let v1 := if impl.all (fun f => decide (st.totals f.1 = f.2.1 ∧ f.2.1 ≥ p.powerStep)) then [] else ["feed_below_threshold_or_wrong_power"]
  let v2 := if impl.length = min p.maxCurrentFeeds cands.length then [] else ["feed_count"]
  let v3 := if cands.all (fun c => inIds.contains c.2 || impl.all (fun f => visitsBefore (f.2.1, f.1) c)) then [] else ["not_highest_powered"]
  let v4 := if impl.all (fun f => decide (f.2.2 = max (Int.tdiv p.maxInterval (Int.tdiv f.2.1 p.powerStep)) p.minInterval)) then [] else ["interval"]
  let v5 := if inIds.eraseDups.length = inIds.length then [] else ["duplicate_feed"]
  v1 ++ v2 ++ v3 ++ v4 ++ v5

def step (s : St) (j : Json) : Except String (St × Json × List Fired) := do
  let op ← jstr j "op"
  let out := (j.getObjVal? "out").toOption.getD Json.null
  match op with
  | "vote" =>
    let voter ← jnat j "voter"
    let sigs ← parseSigs j "signals"
    let env ← jget j "env"
    let tp ← jint env "totalPower"
    let (st', e) := vote s.p s.st voter sigs tp
    let mout := mkObj [("err", js e.code), ("lock", ji (st'.locks voter)), ("totals", totalsJson st'), ("index", indexJson st')]
    -- monitors on the implementation's observation
    let ierr ← jstr out "err"
    let mut fired : List Fired := []
    if ierr == "" then
      let ilock ← jint out "lock"
      let ts := trueSum sigs
      if ts > tp then
        fired := fired ++ [{ name := "vote_sum_exceeds_power", detail := mkObj [("sum", ji ts), ("totalPower", ji tp), ("wrap", jb (ts ≥ 9223372036854775808))] }]
      if ilock ≠ ts then
        fired := fired ++ [{ name := "lock_ne_vote_sum", detail := mkObj [("sum", ji ts), ("lock", ji ilock), ("wrap", jb (ts ≥ 9223372036854775808))] }]
      -- totals must equal the sum of standing votes (shadow votes follow the impl's acceptance)
      let votes' := fun v => if v = voter then sigs else s.st.votes v
      let voters' := if voter ∈ s.st.voters then s.st.voters else s.st.voters ++ [voter]
      let itot ← jarr out "totals"
      let itotL ← itot.mapM fun e => do
        match e with
        | .arr #[a, b] => pure ((← asStr a), (← asInt b))
        | _ => throw "bad totals"
      let ids := (sigs.map (·.id)) ++ s.st.sigs
      for id in ids.eraseDups do
        let expect : Int := (voters'.map (fun v => powerIn (votes' v) id)).foldl (· + ·) 0
        let got : Int := ((itotL.filter (fun e => e.1 = id)).map (·.2)).foldl (· + ·) 0
        if expect ≠ got then
          fired := fired ++ [{ name := "total_ne_sum_of_votes", detail := mkObj [("signal", js id), ("expect", ji expect), ("got", ji got)] }]
    pure ({ s with st := st' }, mout, fired)
  | "unstake" =>
    let voter ← jnat j "voter"
    let amount ← jint j "amount"
    let env ← jget j "env"
    let tp ← jint env "totalPower"
    let ok := unstakeAllowed s.st voter tp amount
    let ierr ← jstr out "err"
    let mut fired : List Fired := []
    if ierr == "" && tp - amount < s.st.locks voter then
      fired := [{ name := "withdraw_below_lock", detail := mkObj [("lock", ji (s.st.locks voter)), ("after", ji (tp - amount))] }]
    pure (s, mkObj [("ok", jb ok), ("err", js (if ok then "" else Generated.Err.restake_ErrUnableToUnstake))], fired)
  | "updateFeeds" =>
    let feeds := newCurrentFeeds s.p s.st
    let ifeeds ← jarr out "feeds"
    let il ← ifeeds.mapM fun e => do
      match e with
      | .arr #[a, b, c] => pure ((← asStr a), (← asInt b), (← asInt c))
      | _ => throw "bad feed"
    let mut fired := (feedsSpecViolations s.p s.st il).map fun n => ({ name := "current_feeds_" ++ n, detail := out } : Fired)
    -- the list is what the chain STORES after the end-blocker of an update block, stamped with that block
    let h := (jint j "height").toOption.getD 0
    let lub := (jint out "lastUpdateBlock").toOption.getD h
    if lub != h then
      fired := fired ++ [{ name := "current_feeds_not_recomputed_in_update_block", detail := mkObj [("height", ji h), ("lastUpdateBlock", ji lub)] }]
    pure (s, mkObj [("feeds", feedsJson feeds), ("err", js ""), ("lastUpdateBlock", ji h)], fired)
  | "reimport" =>
    -- genesis export → validate → import on a store branch: the totals recomputed from the votes are the chain's totals
    let mut fired : List Fired := []
    let ierr ← jstr out "err"
    if ierr != "" then
      fired := fired ++ [{ name := "reachable_state_rejected_as_genesis", detail := mkObj [("err", js ierr)] }]
    else
      let itot ← jarr out "totals"
      let itotL ← itot.mapM fun e => do
        match e with
        | .arr #[a, b] => pure ((← asStr a), (← asInt b))
        | _ => throw "bad totals"
      for id in (s.st.sigs ++ itotL.map (·.1)).eraseDups do
        let expect : Int := (s.st.voters.map (fun v => powerIn (s.st.votes v) id)).foldl (· + ·) 0
        let got : Int := ((itotL.filter (fun e => e.1 = id)).map (·.2)).foldl (· + ·) 0
        if expect ≠ got then
          fired := fired ++ [{ name := "total_ne_sum_of_votes", detail := mkObj [("signal", js id), ("expect", ji expect), ("got", ji got), ("afterGenesisImport", jb true)] }]
    pure (s, out, fired)
  | _ => throw s!"unknown op {op}"

def initSt (j : Json) : St :=
  let p := (j.getObjVal? "params").toOption.getD Json.null
  let g (k : String) : Int := (jint p k).toOption.getD 0
  { p := { maxCurrentFeeds := (g "max").toNat, powerStep := g "step", minInterval := g "minI", maxInterval := g "maxI" },
    st := State.empty }

/-- after a DIFF the model's state stays the specification's truth (it is a function of the inputs only) as
    long as implementation and model agreed on accepting/rejecting the vote; then the monitors keep running -/
def resync (pre post : St) (j : Json) : Except String St := do
  let op ← jstr j "op"
  if op != "vote" then return post
  let out ← jget j "out"
  let ierr ← jstr out "err"
  let (_, e) := vote pre.p pre.st (← jnat j "voter") (← parseSigs j "signals") (← jint (← jget j "env") "totalPower")
  if (ierr == "") == (e.code == "") then pure post else throw "acceptance differs"

def main : IO UInt32 := runDriver { init := initSt, step := step, resync := some resync }
