/- Driver for C11: signed-message encoding, ABI round trips, tick conversion. -/
import BandVerif.Common.Driver
import BandVerif.Model.SigningMsg
import BandVerif.Exec.Keccak
import BandVerif.Generated.Errors

open Lean BandVerif BandVerif.Enc

def hexVal (c : Char) : Nat :=
  if '0' ≤ c ∧ c ≤ '9' then c.toNat - '0'.toNat else if 'a' ≤ c ∧ c ≤ 'f' then c.toNat - 'a'.toNat + 10 else 0

def ofHexGo : List Char → List Nat
  | a :: b :: rest => (hexVal a * 16 + hexVal b) :: ofHexGo rest
  | _ => []
def ofHex (s : String) : List Nat := ofHexGo s.toList
def toHex (l : List Nat) : String := Keccak.toHex l

def H (b : Bytes) : Bytes := Keccak.keccak256 b

def jhex (j : Json) (k : String) : Except String Bytes := do pure (ofHex (← jstr j k))

def parsePrices (j : Json) (k : String) : Except String (List (Bytes × Nat)) := do
  (← jarr j k).mapM fun e => match e with
    | .arr #[a, b, _] => do pure (ofHex (← asStr a), ← asNat b)
    | _ => throw "bad price"

def relayJson (l : List RelayPrice) : Json := jl (l.map fun p => jl [js (toHex p.sid), jn p.price])

def parseResult (j : Json) : Except String OResult := do
  pure { clientID := ← jhex j "clientID", oracleScriptID := ← jnat j "osid", calldata := ← jhex j "calldata", askCount := ← jnat j "ask",
         minCount := ← jnat j "min", requestID := ← jnat j "rid", ansCount := ← jnat j "ans", requestTime := ← jint j "reqTime",
         resolveTime := ← jint j "resTime", resolveStatus := ← jint j "status", result := ← jhex j "result" }

def fullJson (r : OResult) : Json :=
  mkObj [("clientID", js (toHex r.clientID)), ("osid", jn r.oracleScriptID), ("calldata", js (toHex r.calldata)), ("ask", jn r.askCount), ("min", jn r.minCount),
    ("rid", jn r.requestID), ("ans", jn r.ansCount), ("reqTime", ji r.requestTime), ("resTime", ji r.resolveTime), ("status", ji r.resolveStatus), ("result", js (toHex r.result))]

def partialJson (r : PResult) : Json :=
  mkObj [("calldata", js (toHex r.calldata)), ("osid", jn r.oracleScriptID), ("rid", jn r.requestID), ("min", jn r.minCount),
    ("resTime", ji r.resolveTime), ("status", ji r.resolveStatus), ("result", js (toHex r.result))]

/-- what the specification says the decoded relay prices are, from the on-chain prices -/
def specRelay (tick : Bool) (ps : List (Bytes × Nat)) : Option (List RelayPrice) := toRelay tick ps

def tickSpecOK (price : Nat) (t : Int) : Bool :=
  -- t (without offset) is the largest tick whose price does not exceed `price`
  Tick.inRange t && decide (Tick.x96 t ≤ price * Tick.q96) && (!Tick.inRange (t + 1) || decide (price * Tick.q96 < Tick.x96 (t + 1)))

def step (st : Unit) (j : Json) : Except String (Unit × Json × List Fired) := do
  let op ← jstr j "op"
  let out := (j.getObjVal? "out").toOption.getD Json.null
  let mut fired : List Fired := []
  match op with
  | "feedsEnc" | "tunnelEnc" =>
    let ps ← parsePrices j "prices"
    let ts ← jint j "ts"
    let enc ← jnat j "encoder"
    let ierr ← jstr out "err"
    let isTunnel := op == "tunnelEnc"
    let seq := (jnat j "seq").toOption.getD 0
    let content := if isTunnel then tunnelContent enc seq ps ts else feedsContent enc ps ts
    match content with
    | none =>
      -- the model rejects (unknown encoder, long signal id, tick failure): the implementation must too
      if ierr == "" then fired := fired ++ [{ name := "encoder_accepted_what_spec_rejects", detail := j }]
      pure ((), mkObj [("err", js ierr), ("bytes", js "")], fired)
    | some bz =>
      -- the specification encodes this payload (every signal id of at most 32 bytes, every price the encoder's range holds):
      -- an implementation that refuses it leaves on-chain data that can never be signed
      if ierr != "" then
        fired := fired ++ [{ name := "encodable_payload_rejected", detail := mkObj [("err", js ierr), ("op", js op)] }]
      let tick := enc == 2
      let dec : Json := if isTunnel then
          match decPacket (bz.drop 4) with
          | some (s, r, t) => mkObj [("seq", jn s), ("prices", relayJson r), ("ts", ji t)]
          | none => Json.null
        else
          match decFeeds (bz.drop 4) with
          | some (r, t) => mkObj [("prices", relayJson r), ("ts", ji t)]
          | none => Json.null
      -- monitor: the implementation's bytes, read by the independent decoder, give back the on-chain data
      if ierr == "" then
        let idec := (out.getObjVal? "dec").toOption.getD Json.null
        let want : Json := match specRelay tick ps with
          | some r => if isTunnel then mkObj [("seq", jn seq), ("prices", relayJson r), ("ts", ji ts)] else mkObj [("prices", relayJson r), ("ts", ji ts)]
          | none => Json.null
        if !jsonEq idec want then
          fired := fired ++ [{ name := "payload_does_not_decode_to_onchain_data", detail := mkObj [("got", idec), ("want", want)] }]
        let ib ← jhex out "bytes"
        let tag := if tick then Generated.SigningEnc.tagTickABI else Generated.SigningEnc.tagFixedPointABI
        if ib.take 4 != tag then
          fired := fired ++ [{ name := "content_tag_wrong", detail := js (toHex (ib.take 4)) }]
      pure ((), mkObj [("err", js ""), ("bytes", js (toHex bz)), ("dec", dec)], fired)
  | "resultEnc" =>
    let r ← parseResult (← jget j "result")
    let full := encFull r
    let part := encPartial r.partial
    let df : Json := match decFull full with | some x => fullJson x | none => Json.null
    let dp : Json := match decPartial part with | some x => partialJson x | none => Json.null
    let idf := (out.getObjVal? "decFull").toOption.getD Json.null
    let idp := (out.getObjVal? "decPartial").toOption.getD Json.null
    if !jsonEq idf (fullJson r) then
      fired := fired ++ [{ name := "payload_does_not_decode_to_onchain_data", detail := mkObj [("kind", js "fullABI"), ("got", idf), ("want", fullJson r)] }]
    if !jsonEq idp (partialJson r.partial) then
      fired := fired ++ [{ name := "payload_does_not_decode_to_onchain_data", detail := mkObj [("kind", js "partialABI"), ("got", idp), ("want", partialJson r.partial)] }]
    pure ((), mkObj [("errFull", js ""), ("errPartial", js ""), ("full", js (toHex full)), ("partial", js (toHex part)), ("decFull", df), ("decPartial", dp)], fired)
  | "tick" =>
    let price ← jnat j "price"
    let ierr ← jbool out "err"
    let itick ← jnat out "tick"
    let m := Tick.priceToTick price
    -- the hypothesis of price_to_tick_largest_partial, evaluated on every sampled price
    if price ≠ 0 && !Tick.approxOK price then
      fired := fired ++ [{ name := "tick_approximation_not_within_one", detail := mkObj [("price", jn price), ("approx", ji (Tick.approxTick price))] }]
    if !ierr then
      if !tickSpecOK price ((itick : Int) - Tick.offset) then
        fired := fired ++ [{ name := "tick_not_largest_with_price_le", detail := mkObj [("price", jn price), ("tick", jn itick)] }]
    else if price ≠ 0 then
      fired := fired ++ [{ name := "tick_conversion_failed_for_valid_price", detail := mkObj [("price", jn price)] }]
    let mout := match m with
      | some t =>
        let back := Tick.tickToPrice (t - Tick.offset)
        mkObj [("err", jb false), ("tick", ji t), ("back", jn (back.getD 0)), ("backErr", jb back.isNone)]
      | none => mkObj [("err", jb true), ("tick", jn 0)]
    pure ((), mout, fired)
  | "tickToPrice" =>
    let t ← jint j "tick"
    let mout := match Tick.tickToPrice t with
      | some p => mkObj [("err", jb false), ("price", jn p)]
      | none => mkObj [("err", jb true), ("price", jn 0)]
    pure ((), mout, fired)
  | "header" =>
    let time := (← jint j "time").toNat
    let sid ← jnat j "sid"
    let content ← jhex j "content"
    let f ← jstrList j "f"
    let fb := f.map ofHex
    let o : Originator := if (← jstr j "kind") == "direct"
      then .direct { chain := fb.getD 0 [], requester := fb.getD 1 [], memo := fb.getD 2 [] }
      else .tunnel { chain := fb.getD 0 [], tunnelID := (jnat j "tunnelID").toOption.getD 0, dstChain := fb.getD 1 [], dstAddr := fb.getD 2 [] }
    if (jstr out "originator").toOption.getD "" != toHex (o.encode H) then
      fired := fired ++ [{ name := "originator_encoding_not_the_specified_one", detail := mkObj [("got", js ((jstr out "originator").toOption.getD "")), ("want", js (toHex (o.encode H)))] }]
    pure ((), mkObj [("originator", js (toHex (o.encode H))), ("msg", js (toHex (encodeSigning (H (o.encode H)) time sid content)))], fired)
  | "request" =>
    let kind ← jstr j "kind"
    let ierr ← jstr out "err"
    let icount ← jnat out "count"
    let want ← jnat j "wantSid"
    let time := (← jint j "time").toNat
    let chain ← jhex j "chainID"
    let byUser := kind == "tunnelByUser" || kind == "transitionByUser"
    if byUser then
      let k : Kind := if kind == "tunnelByUser" then .tunnel else .transition
      if ierr == "" then
        fired := fired ++ [{ name := "user_obtained_signature_over_internal_content", detail := js kind }]
      let e := if userMayRequest k then ierr else Generated.Err.bandtss_ErrContentNotAllowed
      return ((), mkObj [("err", js e), ("count", jn (want - 1))], fired)
    let o : Originator := if (← jstr j "originator") == "direct"
      then .direct { chain := chain, requester := (jhex j "requester").toOption.getD [], memo := (jhex j "memo").toOption.getD [] }
      else .tunnel { chain := chain, tunnelID := (jnat j "tunnelID").toOption.getD 0, dstChain := (jhex j "dstChain").toOption.getD [], dstAddr := (jhex j "dstAddr").toOption.getD [] }
    let k : Kind := match kind with
      | "text" => .text | "feeds" => .feeds | "oracle" => .oracle | "tunnel" => .tunnel | _ => .transition
    let content : Option Bytes ← match kind with
      | "text" => do pure (some (textOf (← jhex j "text")))
      | "feeds" => do pure (feedsContent (← jnat j "encoder") (← parsePrices j "prices") (← jint j "time"))
      | "oracle" => do pure (oracleContent (← jnat j "encoder") (← parseResult (← jget j "result")) ((jhex j "proto").toOption.getD []))
      | "tunnel" => do pure (tunnelContent (← jnat j "encoder") (← jnat j "seq") (← parsePrices j "prices") (← jint j "createdAt"))
      | "transition" => do pure (some (transitionOf (← jhex j "pubKey") (← jint j "transitionTime").toNat))
      | _ => throw s!"unknown kind {kind}"
    if ierr != "" then
      -- rejected for a reason outside this model (limits, originator validity, fees): nothing may be created
      if icount ≠ want - 1 then
        fired := fired ++ [{ name := "rejected_request_left_a_signing", detail := j }]
      return ((), mkObj [("err", js ierr), ("count", jn (want - 1))], fired)
    match content with
    | none =>
      fired := fired ++ [{ name := "encoder_accepted_what_spec_rejects", detail := j }]
      pure ((), mkObj [("err", js "model-rejects"), ("count", jn (want - 1))], fired)
    | some c =>
      let msg := message H o time want k.route c
      let c := selector H k.route ++ c
      let imsg ← jhex out "msg"
      -- monitors: header binds originator hash, time and id; the content is the kind's encoding of the on-chain data
      if imsg.take 32 != H (o.encode H) || (imsg.drop 32).take 8 != be64 time || (imsg.drop 40).take 8 != be64 want then
        fired := fired ++ [{ name := "message_header_not_bound_to_request", detail := js (toHex (imsg.take 48)) }]
      if imsg.drop 48 != c then
        fired := fired ++ [{ name := "content_not_onchain_data", detail := mkObj [("got", js (toHex (imsg.drop 48))), ("want", js (toHex c))] }]
      pure ((), mkObj [("err", js ""), ("count", jn want), ("msg", js (toHex msg))], fired)
  | _ => throw s!"unknown op {op}"

def main : IO UInt32 := runDriver { init := fun _ => (), step := step }
