/- Driver for C04: DKG state machine + independent recomputation of every signature / share / complaint check. -/
import BandVerif.Common.Driver
import BandVerif.Model.Dkg
import BandVerif.Exec.Keccak
import BandVerif.Exec.Secp256k1
import BandVerif.Generated.Errors
import BandVerif.Generated.Frost

open Lean BandVerif BandVerif.Frost BandVerif.Dkg

abbrev Bytes := List Nat
def hexVal (c : Char) : Nat :=
  if '0' ≤ c ∧ c ≤ '9' then c.toNat - '0'.toNat else if 'a' ≤ c ∧ c ≤ 'f' then c.toNat - 'a'.toNat + 10 else 0
def ofHexGo : List Char → List Nat
  | a :: b :: rest => (hexVal a * 16 + hexVal b) :: ofHexGo rest
  | _ => []
def ofHex (s : String) : Bytes := ofHexGo s.toList
def toHex (l : Bytes) : String := Keccak.toHex l
def K (b : Bytes) : Bytes := Keccak.keccak256 b
def ctxStr : Bytes := Keccak.ofString Generated.Frost.contextString
def be64 (n : Nat) : Bytes := (List.range 8).map fun i => (n >>> (8 * (7 - i))) % 256

def secpOps : Ops Nat Secp.Point :=
  { sadd := fun a b => (a + b) % Secp.n, smul := fun a b => a * b % Secp.n, gadd := Secp.add, gneg := Secp.neg,
    act := Secp.mul, base := Secp.G, zeroG := none, szero := 0 }

/-- a point as the chain parses it (`Point.publicKey` → `secp256k1.ParsePubKey`): any SEC1 encoding -/
def pt (s : String) : Secp.Point := Secp.parseSec1 (ofHex s)
def sca (s : String) : Nat := Secp.fromBytes (ofHex s)
def pointHex (P : Secp.Point) : String := toHex (Secp.compress P)

/-- HashRound1A0 / HashRound1OneTime / HashRound3OwnPubKey share one layout -/
def hashDkg (label : String) (nonce : Bytes) (mid : Nat) (dkgCtx pub : Bytes) : Nat :=
  Secp.fromBytes (K (ctxStr ++ Keccak.ofString label ++ nonce ++ be64 mid ++ dkgCtx ++ pub))

def sigOk (label : String) (sig : List String) (mid : Nat) (dkgCtx : Bytes) (pubHex : String) : Bool :=
  let Rb := ofHex (sig.getD 0 "")
  let c := hashDkg label Rb mid dkgCtx (ofHex pubHex)
  schnorrVerify secpOps (Secp.decompress Rb) (sca (sig.getD 1 "")) c (pt pubHex)

structure St where
  g : Group
  dkgCtx : Bytes
  honest : List Bool
  acc : List Secp.Point := []                       -- accumulated commitments
  commits : Nat → List Secp.Point := fun _ => []     -- per dealer (as accepted in round 1)
  oneTime : Nat → String := fun _ => ""               -- one-time public key per member
  pub : Nat → Secp.Point := fun _ => none            -- member public keys (set at round 2)
  groupPub : Secp.Point := none
  coeffs : Nat → List Nat := fun _ => []             -- truth: dealer polynomials
  dealt : List (Nat × Nat × Nat) := []               -- truth: (dealer, recipient, share as decrypted with the true key)
  honestComplaint : List (Nat × Nat) := []            -- (complainant, respondent) of complaints made by the daemon's code
  lastExpired : Nat := 0
  gid : Nat := 0

def errCode : Err → String
  | .ok => ""
  | .invalidStatus => Generated.Err.tss_ErrInvalidGroupStatus
  | .memberNotAuthorized => Generated.Err.tss_ErrInvalidMember
  | .alreadySubmit => Generated.Err.tss_ErrMemberAlreadySubmit
  | .invalidLengthCoeffCommits => Generated.Err.tss_ErrInvalidLengthCoeffCommits
  | .oneTimeSigFailed => Generated.Err.tss_ErrVerifyOneTimeSignatureFailed
  | .a0SigFailed => Generated.Err.tss_ErrVerifyA0SignatureFailed
  | .invalidLengthShares => Generated.Err.tss_ErrInvalidLengthEncryptedSecretShares
  | .confirmFailed => Generated.Err.tss_ErrConfirmFailed
  | .memberNotFound => Generated.Err.tss_ErrMemberNotFound

def statusNum : Status → Nat
  | .round1 => 1 | .round2 => 2 | .round3 => 3 | .active => 4 | .expired => 5 | .fallen => 6

def dump (st : St) (e : Err) : Json :=
  mkObj [("status", jn (statusNum st.g.status)),
    ("pubKey", js (if st.g.status == .round1 then "" else pointHex st.groupPub)),
    ("members", jl ((List.range st.g.n).map fun i => jl [jb (st.g.members (i + 1)).malicious, js (match st.pub (i + 1) with | none => "" | p => pointHex p)])),
    ("pending", jn st.g.queued), ("err", js (errCode e))]

def evalPoly (coeffs : List Nat) (x : Nat) : Nat := coeffs.foldr (fun c acc => (c + x * acc) % Secp.n) 0

def step (st : St) (j : Json) : Except String (St × Json × List Fired) := do
  let op ← jstr j "op"
  let out := (j.getObjVal? "out").toOption.getD Json.null
  let mut fired : List Fired := []
  let g := st.g
  let senderOk := (jstr j "sender").toOption.getD "ok" == "ok"
  let ierr := (jstr out "err").toOption.getD ""
  let (st', e) ← match op with
    | "r1" => do
      let mid ← jnat j "mid"
      let commitsHex ← jstrList j "commits"
      let otp ← jstr j "oneTimePub"
      let oneOk := sigOk "round1OneTime" (← jstrList j "oneTimeSig") mid st.dkgCtx otp
      let a0Ok := sigOk "round1A0" (← jstrList j "a0Sig") mid st.dkgCtx (commitsHex.getD 0 "")
      let (g', e) := submitR1 g mid senderOk commitsHex.length oneOk a0Ok
      -- a dealer's polynomial has exactly `threshold` coefficients: more would let it deal shares that no threshold
      -- subset can interpolate back to the group key, fewer would lower the threshold
      if ierr == "" && commitsHex.length ≠ g.t then
        fired := fired ++ [{ name := "round1_accepted_with_wrong_number_of_commitments", detail := mkObj [("member", jn mid), ("commitments", jn commitsHex.length), ("threshold", jn g.t)] }]
      if e == .ok then
        let cs := commitsHex.map pt
        let dealer ← jnat j "dealer"
        let tc := (← jstrList j "truthCoeffs").map sca
        pure ({ st with g := g', acc := addCommits secpOps st.acc cs, commits := fun i => if i = mid then cs else st.commits i,
                        oneTime := fun i => if i = mid then otp else st.oneTime i,
                        coeffs := fun i => if i = dealer then tc else st.coeffs i }, e)
      else pure ({ st with g := g' }, e)
    | "r2" => do
      let mid ← jnat j "mid"
      let (g', e) := submitR2 g mid senderOk (← jnat j "sharesLen")
      -- a submission that reached the handler although one of its shares is not a 48-byte ciphertext: the recipient cannot
      -- decrypt it, complains, and `VerifyComplaint` fails at decryption — the honest recipient is the one marked malicious
      let mal := (jnatList j "malformedSlots").toOption.getD []
      if ierr == "" && !mal.isEmpty then
        fired := fired ++ [{ name := "round2_accepted_with_malformed_share", detail := mkObj [("member", jn mid), ("slots", jl (mal.map jn))] }]
      if e == .ok then
        let truth ← (← jarr j "truthShares").mapM fun t => match t with
          | .arr #[r, _, sh] => do pure (mid, (← asNat r), sca (← asStr sh))
          | _ => throw "bad truth share"
        -- `UpdateMemberPubKey`: Σ acc[k]·mid^k
        pure ({ st with g := g', pub := fun i => if i = mid then evalCommits secpOps st.acc mid else st.pub i, dealt := st.dealt ++ truth }, e)
      else pure ({ st with g := g' }, e)
    | "complain" => do
      let cs ← (← jarr j "complaints").mapM fun c => do
        let ci ← jnat c "complainant"
        let rj ← jnat c "respondent"
        let ks ← jstr c "keySym"
        let a1 ← jstr c "a1"
        let a2 ← jstr c "a2"
        let z := sca (← jstr c "z")
        let pubI := st.oneTime ci
        let pubJ := st.oneTime rj
        let ch := Secp.fromBytes (K (ctxStr ++ Keccak.ofString "round3Complain" ++ ofHex a1 ++ ofHex a2 ++ ofHex pubI ++ ofHex pubJ ++ ofHex ks))
        let dec ← jstr c "decrypted"
        let upheld := dec != "" && complaintUpheld secpOps (pt a1) (pt a2) z ch (pt pubI) (pt pubJ) (pt ks) ci (sca dec) (st.commits rj)
        pure (ci, rj, upheld)
      let (g', e) := complain g senderOk cs
      let hc := if (← jbool j "honest") && e == .ok then cs.map fun (a, b, _) => (a, b) else []
      pure ({ st with g := g', honestComplaint := st.honestComplaint ++ hc }, e)
    | "confirm" => do
      let mid ← jnat j "mid"
      let ok := sigOk "round3OwnPubKey" (← jstrList j "sig") mid st.dkgCtx (pointHex (st.pub mid))
      let (g', e) := confirm g mid senderOk ok
      pure ({ st with g := g' }, e)
    | "endBlock" => do
      if (jbool out "panic").toOption.getD false then
        return (st, mkObj [("panic", jb false)], [{ name := "group_end_block_panicked", detail := out }])
      let wasR1 := g.status == .round1
      let g' := endBlock g (← jint j "height") (← jint j "period") (← jbool j "reachable")
      let st1 := { st with g := g' }
      -- `HandleProcessGroup` round 1 → 2 publishes the group key = accumulated commitment 0
      let st2 := if wasR1 && g'.status != .round1 && g'.status != .expired then { st1 with groupPub := st.acc.getD 0 none }
                 else if wasR1 && g.queued > 0 then { st1 with groupPub := st.acc.getD 0 none } else st1
      pure (st2, Err.ok)
    | _ => throw s!"unknown op {op}"
  -- a member speaks once per round: a second submission of the same round (a replay, or a retry after its first one was
  -- recorded) is refused, whatever else happened to the store in between
  if e == .alreadySubmit && ierr == "" then
    fired := fired ++ [{ name := "replayed_round_submission_accepted", detail := mkObj [("op", js op), ("member", (j.getObjVal? "mid").toOption.getD Json.null)] }]
  -- ===== property monitors on the implementation's observation =====
  let istatus := (jnat out "status").toOption.getD 0
  let imembers := (jarr out "members").toOption.getD []
  let imal (i : Nat) : Bool := match imembers.getD (i - 1) Json.null with | .arr #[.bool b, _] => b | _ => false
  let ipub (i : Nat) : String := match imembers.getD (i - 1) Json.null with | .arr #[_, .str s] => s | _ => ""
  -- a group whose creation period has run out while it was still in a round (any of the three) is EXPIRED by the walk that
  -- reaches it — it does not stay open for complaints about round data the same walk has just deleted
  if op == "endBlock" && st'.g.status == .expired && (istatus == 1 || istatus == 2 || istatus == 3) then
    fired := fired ++ [{ name := "overdue_group_left_in_its_round", detail := mkObj [("status", jn istatus)] }]
  -- the PendingGroups query (a member's daemon asks it at start-up and redoes the round for every group listed) names this
  -- group for exactly the members whose message of the CURRENT round has not been accepted yet
  match (j.getObjVal? "obs").toOption.bind (fun o => (o.getObjVal? "pending").toOption) with
  | some (.arr a) =>
    let got := a.toList.filterMap fun x => (asNat x).toOption
    let g2 := st'.g
    let want := ((List.range g2.n).map (· + 1)).filter fun i =>
      let mb := g2.members i
      match g2.status with
      | .round1 => !mb.r1
      | .round2 => !mb.r2
      | .round3 => !mb.confirmed && !mb.complained
      | _ => false
    if e == .ok && ierr == "" && got != want then
      fired := fired ++ [{ name := "pending_groups_query_disagrees_with_the_round_state", detail := mkObj [("got", jl (got.map jn)), ("want", jl (want.map jn))] }]
  | _ => pure ()
  -- a member that follows the protocol is never marked malicious
  for i in List.range g.n do
    if st.honest.getD i false && imal (i + 1) then
      fired := fired ++ [{ name := "honest_member_marked_malicious", detail := mkObj [("member", jn (i + 1))] }]
  if istatus == 4 then
    -- ACTIVE only with mutually consistent key material
    let dealers := (List.range g.n).map (· + 1)
    let sumA0 := sumG secpOps (dealers.map fun d => (st'.commits d).getD 0 none)
    if pt ((jstr out "pubKey").toOption.getD "") != sumA0 then
      fired := fired ++ [{ name := "active_group_key_not_sum_of_constant_commitments", detail := Json.null }]
    for i in dealers do
      -- the public image of the sum of the shares dealt to member i (own share from its own polynomial)
      let shares := dealers.map fun d =>
        if d == i then evalPoly (st'.coeffs d) i
        else match st'.dealt.find? (fun (a, b, _) => a == d && b == i) with | some (_, _, s) => s | none => 0
      let sk := shares.foldl (fun a b => (a + b) % Secp.n) 0
      if pt (ipub i) != Secp.mul sk Secp.G then
        fired := fired ++ [{ name := "active_member_key_not_image_of_dealt_shares", detail := mkObj [("member", jn i)] }]
    if (List.range g.n).any fun i => imal (i + 1) then
      fired := fired ++ [{ name := "active_with_malicious_member", detail := Json.null }]
    if !((List.range g.n).all fun i => (st'.g.members (i + 1)).confirmed) then
      fired := fired ++ [{ name := "active_without_all_confirmations", detail := Json.null }]
  -- an upheld honest complaint means the dealer is caught and the group cannot become ACTIVE
  for (ci, rj) in st'.honestComplaint do
    if !imal rj || istatus == 4 then
      fired := fired ++ [{ name := "cheating_dealer_not_caught", detail := mkObj [("complainant", jn ci), ("respondent", jn rj)] }]
  let mout := dump st' e
  -- rejections whose code is outside the model: unknown member id
  let mout := if ierr == Generated.Err.tss_ErrMemberNotFound then mout.setObjVal! "err" (js ierr) else mout
  pure (st', mout, fired)

def initSt (j : Json) : St :=
  let n := (jnat j "n").toOption.getD 0
  let honest := match j.getObjVal? "honest" with
    | .ok (.arr a) => a.toList.map fun b => match b with | .bool x => x | _ => false
    | _ => []
  { g := { n := n, t := (jnat j "t").toOption.getD 0, createdHeight := (jint j "createdHeight").toOption.getD 0 },
    dkgCtx := ofHex ((jstr j "dkgContext").toOption.getD ""), honest := honest }

/-- after a DIFF the model keeps ITS OWN bookkeeping (it is the specification's account of who submitted what),
    so that the ACTIVE-state monitors judge the implementation's later status against it -/
def resync (_pre post : St) (_ : Json) : Except String St := pure post

def main : IO UInt32 := runDriver { init := initSt, step := step, resync := some resync }
