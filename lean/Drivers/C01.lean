/- Driver for C01: oracle request life cycle; full-state comparison + history monitors on the impl's dumps. -/
import BandVerif.Common.Driver
import BandVerif.Model.Oracle
import BandVerif.Generated.Errors

open Lean BandVerif BandVerif.Oracle BandVerif.VStatus

structure St where
  s : State
  nvals : Nat
  /-- request id ↦ (status, result hex) that running its script must give (scripts whose outcome is known from their text) -/
  expects : List (Nat × Nat × String) := []

def resJson : Option Res → Json
  | none => Json.null
  | some r => jl [jn r.status, jn r.ansCount, ji r.resolveTime, jn r.askCount, jn r.minCount, ji r.requestTime,
                  js r.clientId, js r.calldata, js r.result]

def vsJson (s : VS) : Json := jl [jb s.active, jb s.sinceZero, ji (if s.sinceZero then 0 else s.since)]

def dump (st : St) : Json :=
  let s := st.s
  mkObj [
    ("count", jn s.count), ("lastExpired", jn s.lastExpired), ("pending", jl (s.pending.map jn)),
    ("reqs", jl ((List.range s.count).map fun i =>
      let id := i + 1
      jl [jb (s.requests id).isSome, jl (((s.reports id).mergeSort (fun a b => decide (a ≤ b))).map jn), resJson (s.results id)])),
    ("vals", jl ((List.range st.nvals).map fun v => vsJson (s.vstat v)))]

def errCode : RErr → String
  | .ok => ""
  | .emptyReport => Generated.Err.oracle_ErrEmptyReport
  | .dupEid => Generated.Err.oracle_ErrDuplicateExternalID
  | .tooLarge => Generated.Err.oracle_ErrTooLargeRawReportData
  | .alreadyExpired => Generated.Err.oracle_ErrRequestAlreadyExpired
  | .requestNotFound => Generated.Err.oracle_ErrRequestNotFound
  | .notRequested => Generated.Err.oracle_ErrValidatorNotRequested
  | .alreadyReported => Generated.Err.oracle_ErrValidatorAlreadyReported
  | .invalidSize => Generated.Err.oracle_ErrInvalidReportSize
  | .rawRequestNotFound => Generated.Err.oracle_ErrRawRequestNotFound

structure IReq where
  has : Bool
  reporters : List Nat
  res : Option Res

def parseRes (j : Json) : Except String (Option Res) := do
  match j with
  | .null => pure none
  | .arr #[a, b, c, d, e, f, g, h, i] =>
    pure (some { status := ← asNat a, ansCount := ← asNat b, resolveTime := ← asInt c, askCount := ← asNat d, minCount := ← asNat e,
                 requestTime := ← asInt f, clientId := ← asStr g, calldata := ← asStr h, result := ← asStr i })
  | _ => throw "bad result"

def parseDump (out : Json) : Except String (List IReq × List Nat × Nat × List VS) := do
  let reqs ← (← jarr out "reqs").mapM fun e => do
    match e with
    | .arr #[.bool h, .arr reps, r] => pure ({ has := h, reporters := ← reps.toList.mapM asNat, res := ← parseRes r } : IReq)
    | _ => throw "bad req dump"
  let vals ← (← jarr out "vals").mapM fun e => do
    match e with
    | .arr #[.bool a, .bool z, t] => pure (⟨a, z, ← asInt t⟩ : VS)
    | _ => throw "bad val"
  pure (reqs, ← jnatList out "pending", ← jnat out "lastExpired", vals)

def permOf (a b : List Nat) : Bool := a.length == b.length && a.all (b.contains ·) && b.all (a.contains ·)

def step (st : St) (j : Json) : Except String (St × Json × List Fired) := do
  let op ← jstr j "op"
  let out := (j.getObjVal? "out").toOption.getD Json.null
  let s := st.s
  match op with
  | "activate" =>
    let v ← jnat j "val"
    let (vs', _) := activate (s.vstat v) (← jint j "penalty") (← jint j "now")
    let st' := { st with s := { s with vstat := fun i => if i = v then vs' else s.vstat i } }
    pure (st', dump st', [])
  | "request" =>
    let ierr ← jstr out "err"
    if ierr != "" then
      pure (st, (dump st).setObjVal! "err" (js ierr), [])
    else
      let r ← jget j "req"
      let req : Req := { vals := ← jnatList r "vals", minCount := ← jnat r "minCount", eids := ← jnatList r "eids",
                         height := ← jint r "height", time := ← jint r "time", clientId := ← jstr r "clientId", calldata := ← jstr r "calldata" }
      let exps := match j.getObjVal? "expect" with
        | .ok e => match jnat e "status", jstr e "result" with
          | .ok a, .ok b => [((addRequest s req).count, a, b)]
          | _, _ => []
        | _ => []
      let st' := { st with s := addRequest s req, expects := st.expects ++ exps }
      -- an accepted request (by message or by IBC packet) asks for at least one report and for no more than it has validators:
      -- with min_count 0 no report ever makes the count EQUAL to it and the script never runs
      let bad := req.minCount == 0 || req.minCount > req.vals.length
      pure (st', (dump st').setObjVal! "err" (js ""),
        if bad then [{ name := "request_accepted_with_min_count_outside_1_to_ask_count", detail := mkObj [("minCount", jn req.minCount), ("askCount", jn req.vals.length)] }] else [])
  | "report" =>
    let val ← jnat j "val"
    let rid ← jnat j "rid"
    let eids ← jnatList j "eids"
    let oversize ← jbool j "oversize"
    let (s', e) := report s val rid eids oversize
    let st' := { st with s := s' }
    -- monitor: an accepted report is authorised
    let mut fired : List Fired := []
    if (← jstr out "err") == "" then
      let okAuth := match s.requests rid with
        | none => false
        | some req => req.vals.contains val && !(s.reports rid).contains val && decide (rid > s.lastExpired) && permOf eids req.eids && eids.Nodup
      if !okAuth then
        fired := [{ name := "unauthorised_report_accepted", detail := mkObj [("val", jn val), ("rid", jn rid), ("eids", jl (eids.map jn))] }]
    -- monitor: the complete report of a chosen validator (every requested external id exactly once, in ANY order, within the
    -- size limit, before expiry, first report) is accepted — otherwise min_count is never reached and the request expires
    if (← jstr out "err") != "" && !oversize then
      let complete := match s.requests rid with
        | none => false
        | some req => req.vals.contains val && !(s.reports rid).contains val && decide (rid > s.lastExpired) && permOf eids req.eids && eids.Nodup && !eids.isEmpty
      if complete then
        fired := fired ++ [{ name := "complete_report_of_chosen_validator_rejected", detail := mkObj [("val", jn val), ("rid", jn rid), ("eids", jl (eids.map jn)), ("err", js ((jstr out "err").toOption.getD ""))] }]
    -- monitor: an accepted report is recorded (the expiry pass deactivates the chosen validators without a recorded report)
    if (← jstr out "err") == "" then
      let (ireqs, _, _, _) ← parseDump out
      let ir := ireqs.getD (rid - 1) { has := false, reporters := [], res := none }
      if ir.has && !ir.reporters.contains val then
        fired := fired ++ [{ name := "accepted_report_not_recorded", detail := mkObj [("val", jn val), ("rid", jn rid), ("reporters", jl (ir.reporters.map jn))] }]
    -- monitor: a request is queued for resolution at most once (a duplicate entry is resolved twice:
    -- two resolve events / signing requests / IBC packets for one request)
    let ipend ← jnatList out "pending"
    if ipend.eraseDups.length ≠ ipend.length then
      fired := fired ++ [{ name := "request_queued_for_resolution_twice", detail := mkObj [("pending", jl (ipend.map jn))] }]
    pure (st', (dump st').setObjVal! "err" (js (errCode e)), fired)
  | "pendingQuery" =>
    -- the open requests that still wait for this validator's report: chosen for it, not yet reported by it, not expired
    let v ← jnat j "val"
    let want := ((List.range s.count).map (· + 1)).filter fun id =>
      decide (id > s.lastExpired) && match s.requests id with
        | some req => req.vals.contains v && !(s.reports id).contains v && (s.reports id).length != req.vals.length
        | none => false
    let ids ← jnatList out "ids"
    let mut fired : List Fired := []
    if (← jstr out "err") == "" then
      let missing := want.filter (!ids.contains ·)
      if !missing.isEmpty then
        fired := fired ++ [{ name := "open_request_missing_from_pending_query", detail := mkObj [("val", jn v), ("missing", jl (missing.map jn)), ("got", jl (ids.map jn))] }]
    pure (st, mkObj [("err", js ""), ("ids", jl (want.map jn))], fired)
  | "endBlock" =>
    let height ← jint j "height"
    let nowNs ← jint j "now"
    let exp ← jint j "exp"
    if (jbool out "panic").toOption.getD false then
      -- the real end-blocker panicked: the chain halts, pending and due requests never obtain their result
      match endBlock s (fun _ => (1, "")) exp height nowNs with
      | some _ =>
        return (st, mkObj [("panic", jb false)], [{ name := "end_block_panicked_requests_left_unresolved", detail := mkObj [("err", js ((jstr out "err").toOption.getD "")), ("pending", jl (s.pending.map jn))] }])
      | none => pure ()
    let (ireqs, _, _, ivals) ← parseDump out
    -- outcomes known from the reports present now (oracle script 4 concatenates the answers)
    let lineExp : List (Nat × Nat × String) := match j.getObjVal? "expects" with
      | .ok (.arr xs) => xs.toList.filterMap fun e => match e with
        | .arr #[a, b, c] => match asNat a, asNat b, asStr c with
          | .ok x, .ok y, .ok z => some (x, y, z)
          | _, _, _ => none
        | _ => none
      | _ => []
    let st := { st with expects := st.expects ++ lineExp }
    -- env: the script outcome of each pending id is read from the implementation's result
    let outcome : Nat → Nat × String := fun id =>
      match (ireqs.getD (id - 1) { has := false, reporters := [], res := none }).res with
      | some r => (r.status, r.result)
      | none => (0, "")
    let r := endBlock s outcome exp height nowNs
    let (st', mout) := match r with
      | none => (st, mkObj [("panic", jb true)])
      | some s' => ({ st with s := s' }, dump { st with s := s' })
    -- monitors on the implementation's post-state against the pre-state history
    let mut fired : List Fired := []
    let now := unixOf nowNs
    for i in List.range s.count do
      let id := i + 1
      let ir := ireqs.getD i { has := false, reporters := [], res := none }
      match s.results id, ir.res with
      | some old, some new =>
        if old ≠ new then fired := fired ++ [{ name := "result_changed", detail := mkObj [("id", jn id)] }]
      | some _, none => fired := fired ++ [{ name := "result_lost", detail := mkObj [("id", jn id)] }]
      | none, some new =>
        let wasPending := s.pending.contains id
        match s.requests id with
        | none => fired := fired ++ [{ name := "result_for_unknown_request", detail := mkObj [("id", jn id)] }]
        | some req =>
          let expiredNow := decide (req.height + exp ≤ height)
          if new.status = statusExpired then
            if !expiredNow || wasPending then
              fired := fired ++ [{ name := "expired_too_early_or_despite_enough_reports", detail := mkObj [("id", jn id)] }]
          else if !wasPending then
            fired := fired ++ [{ name := "resolved_without_min_count_reports", detail := mkObj [("id", jn id), ("status", jn new.status)] }]
          else
            -- the result is what running the oracle script gives (scripts with an outcome known from their text)
            match st.expects.find? (·.1 == id) with
            | some (_, est, eres) =>
              if new.status ≠ est || new.result ≠ eres then
                fired := fired ++ [{ name := "result_is_not_the_script_outcome", detail := mkObj [("id", jn id), ("status", jn new.status), ("result", js new.result),
                  ("expectedStatus", jn est), ("expectedResult", js eres)] }]
            | none => pure ()
          if !(new.clientId == req.clientId && new.calldata == req.calldata && new.askCount == req.vals.length &&
               new.minCount == req.minCount && new.requestTime == req.time && new.resolveTime == now &&
               new.ansCount == (s.reports id).length) then
            fired := fired ++ [{ name := "result_does_not_mirror_request", detail := mkObj [("id", jn id), ("res", resJson (some new))] }]
      | none, none =>
        match s.requests id with
        | some req =>
          if s.pending.contains id then
            fired := fired ++ [{ name := "pending_request_not_resolved", detail := mkObj [("id", jn id)] }]
          if req.height + exp ≤ height ∧ (List.range s.count).all (fun k => k + 1 ≥ id || match s.requests (k+1) with
              | some r2 => decide (r2.height + exp ≤ height) | none => true) then
            fired := fired ++ [{ name := "expired_request_without_result", detail := mkObj [("id", jn id)] }]
        | none => pure ()
    -- C15: a validator deactivated by this end-block had a genuine miss
    for v in List.range st.nvals do
      let pre := s.vstat v
      let post := ivals.getD v pre
      if pre.active && !post.active then
        let genuine := (List.range s.count).any fun i =>
          match s.requests (i + 1) with
          | some req => req.vals.contains v && !(s.reports (i + 1)).contains v && decide (req.height + exp ≤ height) &&
                        decide (pre.since < req.time * 1000000000)
          | none => false
        if !genuine then
          fired := fired ++ [{ name := "deactivated_without_genuine_miss", detail := mkObj [("val", jn v)] }]
      if !pre.active && post.active then
        fired := fired ++ [{ name := "activated_without_activate", detail := mkObj [("val", jn v)] }]
    pure (st', mout, fired)
  | _ => throw s!"unknown op {op}"

def initSt (j : Json) : St := { s := State.init, nvals := (jnat j "n").toOption.getD 3 }

def main : IO UInt32 := runDriver { init := initSt, step := step }
