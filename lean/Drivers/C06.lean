/- Driver for C06: model replay + spec-level monitors (status rule, range, weighted-median property). -/
import BandVerif.Common.Driver
import BandVerif.Model.Median
import BandVerif.Generated.Errors

open Lean BandVerif BandVerif.Median

def parseInfos (j : Json) (k : String) : Except String (List Info) := do
  (← jarr j k).mapM fun e => do
    match e with
    | .arr #[a, b, c, d] => pure { status := (← asNat a), power := (← asInt b), price := (← asNat c), ts := (← asInt d) }
    | _ => throw "bad info"

def resJson : Res → Json
  | .price s p => mkObj [("err", js ""), ("status", jn s), ("price", jn p)]
  | .error => mkObj [("err", js Generated.Err.feeds_ErrInvalidWeightedPrices), ("status", jn 0), ("price", jn 0)]

def optJson : Option Nat → Json
  | some p => mkObj [("err", js ""), ("price", jn p)]
  | none => mkObj [("err", js Generated.Err.feeds_ErrInvalidWeightedPrices), ("price", jn 0)]

/-- weight strictly below / at-or-below a price, and total -/
def wBelow (ws : List (Int × Nat)) (p : Nat) : Int := ((ws.filter (fun e => e.2 < p)).map (·.1)).sum
def wUpTo (ws : List (Int × Nat)) (p : Nat) : Int := ((ws.filter (fun e => e.2 ≤ p)).map (·.1)).sum
def wTotal (ws : List (Int × Nat)) : Int := (ws.map (·.1)).sum

/-- spec monitors for an AVAILABLE price `p` computed from `infos` -/
def medianMonitors (infos : List Info) (p : Nat) : List Fired :=
  let av := validOf infos
  let prices := av.map (·.price)
  let ws := weightsOf infos
  let m1 : List Fired := if prices.contains p then [] else [{ name := "median_not_a_reported_price", detail := jn p }]
  let lo := prices.foldl min p
  let hi := prices.foldl max p
  let m2 : List Fired := if lo ≤ p ∧ p ≤ hi ∧ prices.any (· ≤ p) ∧ prices.any (· ≥ p) then [] else [{ name := "median_out_of_range", detail := jn p }]
  let m3 : List Fired := if wTotal ws = 0 ∨ (2 * wBelow ws p < wTotal ws ∧ 2 * wUpTo ws p ≥ wTotal ws) then [] else
    [{ name := "not_weighted_median", detail := mkObj [("price", jn p), ("below", ji (wBelow ws p)), ("upto", ji (wUpTo ws p)), ("total", ji (wTotal ws))] }]
  m1 ++ m2 ++ m3

/-- status rule stated directly from the property text -/
def specStatus (infos : List Info) (quorum : Int) : Nat :=
  let total := (infos.map (·.power)).sum
  let avail := ((infos.filter isAvail).map (·.power)).sum
  let unsup := ((infos.filter (fun i => i.status == signal_price_status_unsupported)).map (·.power)).sum
  if 2 * unsup > total then price_status_unknown_signal_id
  else if total > 0 ∧ total ≥ quorum ∧ 2 * avail ≥ total then price_status_available
  else price_status_not_ready

def calcMonitors (infos : List Info) (quorum : Int) (out : Json) : Except String (List Fired) := do
  let ierr ← jstr out "err"
  if ierr != "" then
    return [{ name := "calculate_price_error", detail := mkObj [("err", js ierr), ("quorum", ji quorum), ("entries", jn infos.length),
              ("zeroTotal", jb ((infos.map (·.power)).sum == 0))] }]
  let st ← jnat out "status"
  let p ← jnat out "price"
  let mut fired : List Fired := []
  if st ≠ specStatus infos quorum then
    fired := fired ++ [{ name := "status_rule", detail := mkObj [("impl", jn st), ("spec", jn (specStatus infos quorum))] }]
  if st = price_status_available then
    fired := fired ++ medianMonitors infos p
  return fired

def parseVals (j : Json) (feed : String) : Except String (List Val) := do
  (← jarr j "vals").mapM fun v => do
    let prices ← jget v "prices"
    let entry ← match prices.getObjVal? feed with
      | .ok (.arr #[a, b, c]) => pure (some ((← asNat a), (← asNat b), (← asInt c)))
      | _ => pure none
    pure { power := (← jint v "power"), bonded := (← jbool v "bonded"), active := (← jbool v "active"), entry := entry }

def step (s : Unit) (j : Json) : Except String (Unit × Json × List Fired) := do
  let op ← jstr j "op"
  let out := (j.getObjVal? "out").toOption.getD Json.null
  match op with
  | "median" =>
    let infos ← parseInfos j "infos"
    let r := medianValidatorPriceInfos infos
    let ierr ← jstr out "err"
    let fired ← if ierr == "" then pure (medianMonitors infos (← jnat out "price")) else pure []
    pure (s, optJson r, fired)
  | "mwp" =>
    let ws ← (← jarr j "wps").mapM fun e => do
      match e with
      | .arr #[a, b] => pure ((← asInt a), (← asNat b))
      | _ => throw "bad wp"
    let ierr ← jstr out "err"
    let mut fired : List Fired := []
    if ierr == "" then
      let p ← jnat out "price"
      if ¬ ((wTotal ws = 0 ∨ (2 * wBelow ws p < wTotal ws ∧ 2 * wUpTo ws p ≥ wTotal ws)) ∧ (ws.map (·.2)).contains p) then
        fired := [{ name := "not_weighted_median", detail := mkObj [("price", jn p)] }]
    pure (s, optJson (medianWeightedPrice ws), fired)
  | "powers" =>
    let infos ← parseInfos j "infos"
    let (t, a, u, x) := pricesPowers infos
    pure (s, jl [ji t, ji a, ji u, ji x], [])
  | "calcPrice" =>
    let infos ← parseInfos j "infos"
    let q ← jint j "quorum"
    pure (s, resJson (calculatePrice infos q), ← calcMonitors infos q out)
  | "havePrice" =>
    let r := havePrice (← jnat j "status") (← jint j "ts") (← jint j "now") (← jint j "interval")
    pure (s, jb r, [])
  | "feed" =>
    let feed ← jstr j "feed"
    let vals ← parseVals j feed
    let now ← jint j "now"
    let iv ← jint j "interval"
    let q ← jint j "quorum"
    let r := feedPrice vals now iv q
    -- spec monitor: the published price is computed from exactly the fresh prices of bonded∧active validators
    let fired ← calcMonitors (feedInfos vals now iv) q out
    pure (s, resJson r, fired)
  | _ => throw s!"unknown op {op}"

def main : IO UInt32 := runDriver { init := fun _ => (), step := step }
