"""Regenerate /verif/harness/go.mod from the repo's go.mod (same require/replace blocks,
plus a replace of the chain module by the working tree), and copy go.sum.  Offline-safe."""
import os, re, shutil, sys

REPO = os.environ.get("VERIF_REPO", "/repo")
HARNESS = os.path.join(os.path.dirname(os.path.dirname(os.path.abspath(__file__))), "harness")

def regen(repo=REPO, harness=HARNESS):
    src = open(os.path.join(repo, "go.mod")).read()
    lines = src.splitlines()
    out = ["module verifharness", ""]
    modname = None
    body = []
    for ln in lines:
        m = re.match(r"^module\s+(\S+)", ln)
        if m:
            modname = m.group(1)
            continue
        body.append(ln)
    text = "\n".join(body)
    # inject the replace of the chain module
    text += f"\n\nrequire {modname} v3.0.0-00010101000000-000000000000\n\nreplace {modname} => {repo}\n"
    new = "\n".join(out) + text
    path = os.path.join(harness, "go.mod")
    old = open(path).read() if os.path.exists(path) else None
    if old != new:
        open(path, "w").write(new)
    sumsrc = os.path.join(repo, "go.sum")
    sumdst = os.path.join(harness, "go.sum")
    s = open(sumsrc).read()
    if not os.path.exists(sumdst) or open(sumdst).read() != s:
        open(sumdst, "w").write(s)
    return modname

if __name__ == "__main__":
    print(regen())
