#!/usr/bin/env python3
"""Regenerates the machine-written parts of DESIGN.md (between <!-- BEGIN:x --> / <!-- END:x --> markers):
   asbuilt-properties (from props/*.json + evidence/*.json) and seeded-table (from seeded/*/meta.json + result.json)."""
import glob, json, os, re
ROOT = os.path.dirname(os.path.dirname(os.path.abspath(__file__)))

def props_md():
    out = []
    for p in sorted(glob.glob(os.path.join(ROOT, "props", "C*.json"))):
        c = json.load(open(p)); pid = c["id"]
        th = []
        ev = os.path.join(ROOT, "evidence", pid + ".json")
        if os.path.exists(ev):
            th = [t.split(".")[-1] for t in json.load(open(ev))["coverage"].get("theorems", [])]
        m = c["manifest"]
        out.append(f"#### {pid} (as built)\n")
        out.append(f"*Technique.* {m['technique']}.\n")
        out.append(f"*Proved* (`lean/{c['lean_props'].replace('.', '/')}.lean`, {len(th)} theorems: {', '.join('`'+t+'`' for t in th)}). {m['level_text']}.\n")
        gen = c.get("extract", []) + c.get("generate_with", [])
        out.append(f"*Tie to the source.* regenerated: {', '.join(gen) or '—'}; harness `harness/cmd/{c.get('harness')}`, driver `{c.get('driver')}`.\n")
        for t in c.get("trusted_base", []):
            out.append(f"* {t}")
        if c.get("assumptions"):
            out.append("\n*Assumed / not covered.*\n")
            for a in c["assumptions"]:
                out.append(f"* {a}")
        out.append(f"\n*Note.* {m['level_note']}\n")
    return "\n".join(out)

def seeds_md():
    rows = ["| Seeded change | What it changes | Check | Verdict of the check | Reported by |", "|---|---|---|---|---|"]
    for d in sorted(glob.glob(os.path.join(ROOT, "seeded", "C*-*"))):
        n = os.path.basename(d)
        try:
            meta = json.load(open(os.path.join(d, "meta.json")))
        except Exception:
            meta = {}
        title = (meta.get("title") or meta.get("summary") or meta.get("description") or "")[:170].replace("|", "/").replace("\n", " ")
        rp = os.path.join(d, "result.json")
        if os.path.exists(rp):
            r = json.load(open(rp))
            by = r.get("monitor") or "; ".join(r.get("no_longer_checks", [])[:2])
            verdict = {"failing-input": "VIOLATION with concrete replay", "no-failing-input-found": "VIOLATION no-failing-input-found", "missed": "**missed**"}[r["verdict"]]
            rows.append(f"| `{n}` | {title} | {r['check']} | {verdict} | `{by}` |")
        else:
            rows.append(f"| `{n}` | {title} | {n.split('-')[0]} | (not run) | |")
    return "\n".join(rows)

def main():
    p = os.path.join(ROOT, "DESIGN.md")
    s = open(p).read()
    for key, body in (("asbuilt-properties", props_md()), ("seeded-table", seeds_md())):
        a, b = f"<!-- BEGIN:{key} -->", f"<!-- END:{key} -->"
        if a in s and b in s:
            s = s[:s.index(a) + len(a)] + "\n" + body + "\n" + s[s.index(b):]
    open(p, "w").write(s)

main()
