#!/usr/bin/env python3
"""setup_cmd: offline build of everything from files on disk: go.mod mirror, extractor,
generated Lean facts, the Lean library + drivers, and every harness binary."""
import glob, json, os, subprocess, sys
ROOT = os.path.dirname(os.path.dirname(os.path.abspath(__file__)))
sys.path.insert(0, os.path.join(ROOT, "lib"))
import gomod
from vcheck import GOENV, HARNESS, LEAN, BIN, REPO

def run(cmd, **kw):
    print("+", " ".join(cmd), flush=True)
    return subprocess.run(cmd, **kw).returncode

def main():
    os.makedirs(BIN, exist_ok=True)
    gomod.regen(REPO, HARNESS)
    rc = run(["go", "build", "-o", os.path.join(BIN, "extract"), "./cmd/extract"], cwd=HARNESS, env=GOENV)
    if rc: return rc
    rc = run([os.path.join(BIN, "extract"), "--repo", REPO, "--out", os.path.join(LEAN, "BandVerif", "Generated")], env=GOENV)
    if rc: return rc
    cfgs = [json.load(open(p)) for p in sorted(glob.glob(os.path.join(ROOT, "props", "C*.json")))]
    # generators that are compiled against / load the current tree
    for g in sorted({g for c in cfgs for g in c.get("generate_with", [])}):
        if g.startswith("tools/"):
            name = g[len("tools/"):]
            rc = run(["go", "build", "-o", os.path.join(BIN, name), "."], cwd=os.path.join(ROOT, "tools", name), env=GOENV)
        else:
            name = g
            rc = run(["go", "build", "-tags", "verif", "-o", os.path.join(BIN, name), "./cmd/" + name], cwd=HARNESS, env=GOENV)
        if rc: return rc
        rc = run([os.path.join(BIN, name), "--repo", REPO, "--out", os.path.join(LEAN, "BandVerif", "Generated")], env=GOENV)
        if rc: return rc
    targets = sorted({c["lean_props"] for c in cfgs} | {c["driver"] for c in cfgs if c.get("driver")})
    rc = run(["lake", "build"] + targets, cwd=LEAN)
    if rc: return rc
    for h in sorted({c["harness"] for c in cfgs if c.get("harness")}):
        rc = run(["go", "build", "-tags", "verif", "-o", os.path.join(BIN, h), "./cmd/" + h], cwd=HARNESS, env=GOENV)
        if rc: return rc
    print("setup ok")
    return 0

if __name__ == "__main__":
    sys.exit(main())
