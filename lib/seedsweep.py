#!/usr/bin/env python3
"""Apply each seeded change to /repo, run the property's check (and the extra ids in meta 'also_checks'), record what it
reported in seeded/<id>-<k>/result.json, and restore /repo.  usage: seedsweep.py [ID-k ...]"""
import glob, json, os, re, subprocess, sys, time
ROOT = os.path.dirname(os.path.dirname(os.path.abspath(__file__)))
REPO = "/repo"

def sh(cmd, **kw):
    p = subprocess.run(cmd, stdout=subprocess.PIPE, stderr=subprocess.STDOUT, text=True, **kw)
    return p.returncode, p.stdout

def clean():
    rc, out = sh(["git", "-C", REPO, "status", "--porcelain"])
    return out.strip() == ""

def main():
    names = sys.argv[1:] or sorted(os.path.basename(d) for d in glob.glob(os.path.join(ROOT, "seeded", "C*-*")))
    assert clean(), "/repo is not clean"
    for n in names:
        d = os.path.join(ROOT, "seeded", n)
        pid = n.split("-")[0]
        rc, out = sh(["git", "-C", REPO, "apply", os.path.join(d, "patch.diff")])
        if rc != 0:
            print(n, "PATCH DOES NOT APPLY", out); continue
        t0 = time.time()
        # the owning property's check first; `checks.txt` (optional) names neighbouring properties whose statement the change
        # also (or rather) violates — the first check that reports a failing input is recorded
        pids = [pid]
        cf = os.path.join(d, "checks.txt")
        if os.path.exists(cf):
            pids += [x for x in open(cf).read().split() if x != pid]
        try:
            for q in pids:
                rc, out = sh([os.path.join(ROOT, "check"), q, "--tier", "quick"], cwd=ROOT)
                m = re.search(r"VIOLATION property=(\S+) replay=(\S+)( no-failing-input-found)?", out)
                if m and not m.group(3):
                    pid = q
                    break
        finally:
            sh(["git", "-C", REPO, "checkout", "--", "."]); sh(["git", "-C", REPO, "clean", "-fdq"])
        m = re.search(r"VIOLATION property=(\S+) replay=(\S+)( no-failing-input-found)?", out)
        res = dict(seed=n, check=pid, exit=rc, wall_s=round(time.time() - t0, 1), verdict="missed")
        if m:
            res["verdict"] = "no-failing-input-found" if m.group(3) else "failing-input"
            try:
                rp = json.load(open(m.group(2)))
                res["monitor"] = rp.get("monitor")
                res["detail"] = (rp.get("detail") or "")[:600]
                res["no_longer_checks"] = [f"{x['kind']}:{x['name']}" for x in rp.get("no_longer_checks", [])][:8] or [f"{k}:{nm}" for k, nm in rp.get("also_broken", [])][:8]
            except Exception as e:
                res["replay_error"] = str(e)
        json.dump(res, open(os.path.join(d, "result.json"), "w"), indent=1)
        print(n, res["verdict"], res.get("monitor"), res["wall_s"], flush=True)
        for f in glob.glob(os.path.join(ROOT, "replays", "*")):
            os.remove(f)
    assert clean()

main()
