#!/bin/bash
# usage: seedconfirm.sh <ID> <k> "<test packages>"   — confirms a sub-agent's seeded change in its scratch worktree /tmp/wt-<ID>,
# copies it to /verif/seeded/<ID>-<k>/, then runs /verif/check <ID> [more ids in $CHECKS] against /repo with the patch applied.
set -u
ID=$1; K=$2; PKGS=$3; CHECKS=${CHECKS:-$ID}
WT=${WT:-/tmp/wt-$ID}; S=$WT/_seed/$K
export GOFLAGS=-mod=mod GOPROXY=off GOSUMDB=off GOTOOLCHAIN=local
cd $WT || exit 2
git checkout -q -- . ; git clean -qfd -e _seed
DEMO=$(ls $S/*_test.go | head -1)
DEMODIR=$(python3 - "$S" <<'PY'
import json,sys,os,re
s=sys.argv[1]
m=json.load(open(os.path.join(s,'meta.json')))
d=m.get('demo_dir')
if not d:
    txt=open(os.path.join(s,'demo.md')).read()
    r=re.findall(r'(?:x|pkg|app|client|cylinder|yoda|grogu|cmd)/[\w/.-]*?/(?=[\w.-]*_test\.go)',txt)
    d=r[0].rstrip('/') if r else ''
print(d)
PY
)
echo "demo=$DEMO demodir=$DEMODIR"
[ -z "$DEMODIR" ] && { echo "cannot determine demo dir"; exit 2; }
RUNPAT=$(grep -ho 'func \(([^)]*) \)\?Test[A-Za-z0-9_]*' $DEMO | sed 's/.*\(Test[A-Za-z0-9_]*\)/\1/' | sort -u | paste -sd'|')
SUITE=$(grep -q '^func ([a-zA-Z_]* \*\?[A-Za-z]*) Test' $DEMO && echo yes || echo no)
cp $DEMO $DEMODIR/
rundemo() { if [ "$SUITE" = yes ]; then go test -vet=off -count=1 ./$DEMODIR/ -run "Test.*/($RUNPAT)\$" 2>&1 | tail -5; else go test -vet=off -count=1 ./$DEMODIR/ -run "^($RUNPAT)\$" 2>&1 | tail -5; fi; }
echo "--- demo on ORIGINAL (expect ok)"; rundemo | tee /tmp/seed-$ID-$K.orig | tail -2
git apply $S/patch.diff || { echo "PATCH DOES NOT APPLY"; exit 2; }
echo "--- build"; go build ./... 2>&1 | head -5
echo "--- demo on CHANGED (expect FAIL)"; rundemo | tee /tmp/seed-$ID-$K.chg | tail -2
rm -f $DEMODIR/$(basename $DEMO)
echo "--- existing tests on CHANGED (expect ok)"; go test -vet=off -count=1 $PKGS 2>&1 | grep -v "no test files" | grep -v "^ok" | head -10; echo "(end of non-ok lines)"
git checkout -q -- . ; git clean -qfd -e _seed
D=/verif/seeded/$ID-${DEST:-$K}; mkdir -p $D; cp $S/* $D/
if [ -z "${NOREPO:-}" ]; then
echo "--- checks against /repo with patch"
git -C /repo apply $S/patch.diff || { echo "patch does not apply to /repo"; exit 2; }
[ -n "${SKIPCHECK:-}" ] || for c in $CHECKS; do (cd /verif && ./check $c 2>&1 | tail -2); done
git -C /repo checkout -- .
fi
rm -f /tmp/seed-$ID-$K.orig /tmp/seed-$ID-$K.chg
