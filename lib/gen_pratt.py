#!/usr/bin/env python3
"""Regenerates lean/BandVerif/Lemmas/GroupOrderPrime.lean: a Pratt certificate (Lucas primality at every node of the factor
tree of n-1) for the secp256k1 group order.  Needs sympy (run with python3-vt).  The output is checked by the Lean kernel;
nothing in it is trusted because this script produced it.  The emitted file is committed; run this only to rebuild it."""
import os
from sympy import factorint
ROOT = os.path.dirname(os.path.dirname(os.path.abspath(__file__)))
N = 0xFFFFFFFFFFFFFFFFFFFFFFFFFFFFFFFEBAAEDCE6AF48A03BBFD25E8CD0364141
SMALL = 100000
order, info = [], {}
def tree(p):
    if p in info or p < SMALL: return
    f = factorint(p - 1)
    for q in f: tree(q)
    a = 2
    while not (pow(a, p - 1, p) == 1 and all(pow(a, (p - 1) // q, p) != 1 for q in f)): a += 1
    info[p] = (a, f); order.append(p)
tree(N)
out = ['''/- C03/C04: the order of the secp256k1 group is prime — a Pratt certificate (Lucas primality at every node of the
   factor tree of n − 1), checked by the kernel.  The witnesses and factorizations were found with sympy by
   /verif/lib/gen_pratt.py; nothing here trusts them: every modular power is re-evaluated (`reduce_mod_char`) and every
   factorization is re-multiplied (`norm_num`). -/
import Mathlib.NumberTheory.LucasPrimality
import Mathlib.Tactic.NormNum.Prime
import Mathlib.Tactic.ReduceModChar

namespace BandVerif.Pratt

theorem prime_dvd_prod_pow {q : ℕ} (hq : q.Prime) : ∀ (l : List (ℕ × ℕ)), (∀ x ∈ l, x.1.Prime) →
    q ∣ (l.map (fun x => x.1 ^ x.2)).prod → ∃ x ∈ l, q = x.1
  | [], _, h => by simp at h; exact absurd h hq.one_lt.ne'
  | x :: xs, hl, h => by
    simp only [List.map_cons, List.prod_cons] at h
    rcases (Nat.Prime.dvd_mul hq).mp h with h1 | h2
    · have := hq.dvd_of_dvd_pow h1
      exact ⟨x, List.mem_cons_self .., (Nat.prime_dvd_prime_iff_eq hq (hl x (List.mem_cons_self ..))).mp this⟩
    · obtain ⟨y, hy, e⟩ := prime_dvd_prod_pow hq xs (fun z hz => hl z (List.mem_cons_of_mem _ hz)) h2
      exact ⟨y, List.mem_cons_of_mem _ hy, e⟩
''']
pname = lambda p: f"prime_{p}"
for p in order:
    a, f = info[p]
    lst = ', '.join(f'({q}, {e})' for q, e in sorted(f.items()))
    alts = ' | '.join(['rfl'] * len(f))
    out.append(f'''
theorem {pname(p)} : Nat.Prime {p} := by
  have hfac : {p} - 1 = ([{lst}].map (fun x : ℕ × ℕ => x.1 ^ x.2)).prod := by norm_num
  have hl : ∀ x ∈ [{lst}], (x : ℕ × ℕ).1.Prime := by
    intro x hx
    simp only [List.mem_cons, List.mem_nil_iff, or_false] at hx
    rcases hx with {alts}
''' + '\n'.join("    · " + ("norm_num" if q < SMALL else f"exact {pname(q)}") for q in sorted(f)) + f'''
  refine lucas_primality {p} ({a} : ZMod {p}) (by reduce_mod_char) ?_
  intro q hq hd
  rw [hfac] at hd
  obtain ⟨x, hx, rfl⟩ := prime_dvd_prod_pow hq _ hl hd
  simp only [List.mem_cons, List.mem_nil_iff, or_false] at hx
  rcases hx with {alts} <;> (reduce_mod_char; try decide)
''')
out.append(f'''
/-- the order of the secp256k1 group -/
def groupOrder : ℕ := {N}

/-- **the group order is prime**, hence `ZMod groupOrder` is a field: the scalar structure assumed by the C03/C04
    theorems exists -/
theorem groupOrder_prime : Nat.Prime groupOrder := {pname(N)}

instance : Fact (Nat.Prime groupOrder) := ⟨groupOrder_prime⟩

end BandVerif.Pratt
''')
open(os.path.join(ROOT, "lean", "BandVerif", "Lemmas", "GroupOrderPrime.lean"), "w").write(''.join(out))
print("certified by Lucas:", order)
