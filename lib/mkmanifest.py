#!/usr/bin/env python3
"""Rebuild MANIFEST.json from props/*.json (claimed checks) + lib/not_applicable.json."""
import glob, json, os
ROOT = os.path.dirname(os.path.dirname(os.path.abspath(__file__)))
props = [json.loads(l)["id"] for l in open(os.path.join(ROOT, "properties.jsonl"))]
cfgs = {c["id"]: c for c in (json.load(open(p)) for p in sorted(glob.glob(os.path.join(ROOT, "props", "C*.json"))))}
na = json.load(open(os.path.join(ROOT, "lib", "not_applicable.json")))
hooks = json.load(open(os.path.join(ROOT, "lib", "hooks.json")))
checks = []
for pid in props:
    c = cfgs.get(pid)
    if not c or c.get("disabled"):
        continue
    m = c["manifest"]
    checks.append({
        "property_id": pid, "quick_cmd": f"./check {pid} --tier quick", "thorough_cmd": f"./check {pid} --tier thorough",
        "evidence_file": f"/verif/evidence/{pid}.json", "replay_cmd_template": f"./check {pid} --replay {{path}}",
        "engine": "lean-proof+correspondence",
        "level_claimed": {"category": c.get("level", "proof"), "text": m["level_text"], "design_ref": m.get("design_ref", "DESIGN.md §4")},
        "level_note": m["level_note"], "technique": m["technique"]})
claimed = {c["property_id"] for c in checks}
man = {
    "version": 1, "setup_cmd": "./setup.sh",
    "hooks": hooks,
    "engines": [{"name": "lean-proof+correspondence", "path": "/verif/check", "serves_properties": sorted(claimed),
                 "kind_free_text": "Lean 4 theorems over hand-written models whose constants/functions are regenerated from /repo by harness/cmd/extract (translator), tied to the code by Go correspondence harnesses (-tags verif) replayed through compiled Lean drivers that also evaluate the property monitors on the implementation's observations"}],
    "checks": checks,
    "notes": "Technique family: machine-checked proof in Lean 4 (see DESIGN.md). known_findings.json lists fixed/known defects.",
    "not_applicable": [{"property_id": p, "reason": na.get(p, "check under construction (no claim yet)")} for p in props if p not in claimed],
}
json.dump(man, open(os.path.join(ROOT, "MANIFEST.json"), "w"), indent=1)
print("claimed:", sorted(claimed))
