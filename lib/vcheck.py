#!/usr/bin/env python3
"""Orchestrator of one property check: regenerate -> prove -> audit -> correspond -> decide -> evidence.
See DESIGN.md section 1.1.  Usage: ./check Cxx [--tier quick|thorough] [--replay FILE]"""
import fcntl, hashlib, json, os, re, subprocess, sys, time, glob, shutil
from concurrent.futures import ThreadPoolExecutor

ROOT = os.path.dirname(os.path.dirname(os.path.abspath(__file__)))
REPO = os.environ.get("VERIF_REPO", "/repo")
LEAN = os.path.join(ROOT, "lean")
HARNESS = os.path.join(ROOT, "harness")
RUN = os.path.join(ROOT, "run")
BIN = os.path.join(RUN, "bin")
GOENV = dict(os.environ, GOFLAGS="-mod=mod", GOPROXY="off", GOSUMDB="off", GOTOOLCHAIN="local", GOMAXPROCS="16")
ALLOWED_AXIOMS = {"propext", "Classical.choice", "Quot.sound"}
FORBIDDEN = re.compile(r"\bsorry\b|\badmit\b|^\s*axiom\s|native_decide|bv_decide|implemented_by|\bunsafe\s|maxHeartbeats\s+0")

sys.path.insert(0, os.path.join(ROOT, "lib"))
import gomod  # noqa


def sh(cmd, cwd=None, env=None, timeout=None, stdin=None):
    p = subprocess.run(cmd, cwd=cwd, env=env, stdout=subprocess.PIPE, stderr=subprocess.STDOUT, text=True,
                       timeout=timeout, stdin=stdin)
    return p.returncode, p.stdout


class Lock:
    def __init__(self, name):
        os.makedirs(RUN, exist_ok=True)
        self.path = os.path.join(RUN, name + ".lock")

    def __enter__(self):
        self.f = open(self.path, "w")
        fcntl.flock(self.f, fcntl.LOCK_EX)

    def __exit__(self, *a):
        fcntl.flock(self.f, fcntl.LOCK_UN)
        self.f.close()


def splitmix(seed, i):
    z = (seed * 0x9E3779B97F4A7C15 + (i + 1) * 0xBF58476D1CE4E5B9) & (2**64 - 1)
    z = ((z ^ (z >> 30)) * 0xBF58476D1CE4E5B9) & (2**64 - 1)
    z = ((z ^ (z >> 27)) * 0x94D049BB133111EB) & (2**64 - 1)
    return (z ^ (z >> 31)) % (2**31)


def strip_comments(src):
    src = re.sub(r"/-.*?-/", "", src, flags=re.S)
    return re.sub(r"--.*", "", src)


def theorems_of(path):
    """Names of theorems in a Props file (with namespace tracking)."""
    out, ns = [], []
    for ln in open(path):
        m = re.match(r"\s*namespace\s+(\S+)", ln)
        if m:
            ns.append(m.group(1)); continue
        m = re.match(r"\s*end\s+(\S+)", ln)
        if m and ns and ns[-1] == m.group(1):
            ns.pop(); continue
        m = re.match(r"\s*(?:@\[[^\]]*\]\s*)?(?:private\s+|protected\s+)?theorem\s+([^\s:({\[]+)", ln)
        if m:
            out.append(".".join(ns + [m.group(1)]))
    return out


def theorem_at(path, line):
    name = None
    for i, ln in enumerate(open(path), 1):
        m = re.match(r"\s*(?:theorem|lemma|def|example|instance)\s*([^\s:({\[]*)", ln)
        if m:
            name = m.group(1) or "example"
        if i >= line:
            break
    return name


class Check:
    def __init__(self, pid, tier, seed):
        self.pid, self.tier, self.seed = pid, tier, seed
        self.cfg = json.load(open(os.path.join(ROOT, "props", pid + ".json")))
        self.rundir = os.path.join(RUN, pid)
        os.makedirs(self.rundir, exist_ok=True)
        os.makedirs(BIN, exist_ok=True)
        self.broken = []      # list of (kind, name, detail) for proof / tie breakage
        self.notes = []
        self.t0 = time.time()
        self.known = [k for k in json.load(open(os.path.join(ROOT, "known_findings.json")))["findings"]
                      if k["property"] == pid and k.get("status") == "known"]

    # ---- 1. regenerate
    def regenerate(self):
        gomod.regen(REPO, HARNESS)
        with Lock("gobuild"):
            rc, out = sh(["go", "build", "-o", os.path.join(BIN, "extract"), "./cmd/extract"], cwd=HARNESS, env=GOENV)
        if rc != 0:
            self.broken.append(("translator", "build", out[-2000:])); return
        rc, out = sh([os.path.join(BIN, "extract"), "--repo", REPO, "--out", os.path.join(LEAN, "BandVerif", "Generated")]
                     + self.cfg.get("extract", []), env=GOENV)
        if rc != 0:
            self.broken.append(("translator", "extract", out[-2000:]))
        # generators that must be COMPILED against the current tree (they execute the source's own definitions)
        for g in self.cfg.get("generate_with", []):
            if g.startswith("tools/"):
                # stand-alone analysis tools (own Go module under /verif/tools; they LOAD the current tree with go/packages)
                g = g[len("tools/"):]
                with Lock("gobuild"):
                    rc, out = sh(["go", "build", "-o", os.path.join(BIN, g), "."], cwd=os.path.join(ROOT, "tools", g), env=GOENV)
                if rc == 0:
                    rc, out = sh([os.path.join(BIN, g), "--repo", REPO, "--out", os.path.join(LEAN, "BandVerif", "Generated")], env=GOENV)
                if rc != 0:
                    self.broken.append(("translator", g, out[-2000:]))
                continue
            with Lock("gobuild"):
                rc, out = sh(["go", "build", "-tags", "verif", "-o", os.path.join(BIN, g), "./cmd/" + g], cwd=HARNESS, env=GOENV)
            if rc == 0:
                rc, out = sh([os.path.join(BIN, g), "--repo", REPO, "--out", os.path.join(LEAN, "BandVerif", "Generated")], env=GOENV)
            if rc != 0:
                self.broken.append(("translator", g, out[-2000:]))

    # ---- 2. prove
    def lake(self, targets):
        with Lock("lake"):
            return sh(["lake", "build"] + targets, cwd=LEAN)

    def prove(self):
        self.props_file = os.path.join(LEAN, *self.cfg["lean_props"].split(".")) + ".lean"
        self.obligations = theorems_of(self.props_file)
        self.driver_ok = True
        if self.cfg.get("driver"):
            rc, out = self.lake([self.cfg["driver"]])
            if rc != 0:
                self.driver_ok = False
                self.broken.append(("model", "driver-build", self.lake_errors(out)))
        rc, out = self.lake([self.cfg["lean_props"]])
        self.failed_theorems = []
        if rc != 0:
            errs = self.lake_errors(out)
            for f, line, msg in re.findall(r"error: ([^\s:]+\.lean):(\d+):\d+: (.*)", out):
                p = os.path.join(LEAN, f)
                nm = theorem_at(p, int(line)) if os.path.exists(p) else "?"
                self.failed_theorems.append(f"{f}:{nm}")
            self.failed_theorems = sorted(set(self.failed_theorems)) or ["<build failed>"]
            self.broken.append(("proof", ",".join(self.failed_theorems), errs))

    @staticmethod
    def lake_errors(out):
        ls = [l for l in out.splitlines() if "error" in l.lower()]
        return "\n".join(ls[:30]) or out[-1500:]

    # ---- 3. audit
    def audit(self):
        self.axioms = {}
        self.discharged = 0
        if any(k == "proof" for k, _, _ in self.broken):
            return
        src = f"import {self.cfg['lean_props']}\n" + "".join(f"#print axioms {t}\n" for t in self.obligations)
        ap = os.path.join(self.rundir, "Audit.lean")
        open(ap, "w").write(src)
        rc, out = sh(["lake", "env", "lean", ap], cwd=LEAN)
        for t in self.obligations:
            m = re.search(r"'" + re.escape(t) + r"' depends on axioms: \[([^\]]*)\]", out, flags=re.S)
            if m:
                ax = {a.strip() for a in m.group(1).replace("\n", " ").split(",") if a.strip()}
            elif re.search(r"'" + re.escape(t) + r"' does not depend on any axioms", out):
                ax = set()
            else:
                self.broken.append(("audit", t, "no #print axioms output: " + out[-500:])); continue
            self.axioms[t] = sorted(ax)
            if ax - ALLOWED_AXIOMS:
                self.broken.append(("audit", t, f"disallowed axioms {sorted(ax - ALLOWED_AXIOMS)}"))
            else:
                self.discharged += 1
        # forbidden tokens in every Lean source this property's proof depends on
        files = set()
        for mod in self.lean_deps():
            files.add(os.path.join(LEAN, *mod.split(".")) + ".lean")
        for f in sorted(files):
            if os.path.exists(f):
                for i, ln in enumerate(strip_comments(open(f).read()).splitlines(), 1):
                    if FORBIDDEN.search(ln):
                        self.broken.append(("audit", os.path.relpath(f, LEAN), f"forbidden token line {i}: {ln.strip()[:80]}"))
        if self.tier == "thorough":
            with Lock("lake"):
                rc, out = sh(["lake", "env", "leanchecker", self.cfg["lean_props"]], cwd=LEAN, timeout=3600)
            self.leanchecker = (rc == 0)
            if rc != 0:
                self.broken.append(("audit", "leanchecker", out[-800:]))

    def lean_deps(self):
        """Transitive BandVerif.* imports of the Props module."""
        seen, todo = set(), [self.cfg["lean_props"]]
        while todo:
            m = todo.pop()
            if m in seen:
                continue
            seen.add(m)
            f = os.path.join(LEAN, *m.split(".")) + ".lean"
            if os.path.exists(f):
                for imp in re.findall(r"^import\s+(BandVerif\.\S+)", open(f).read(), flags=re.M):
                    todo.append(imp)
        return seen

    # ---- 4. correspond
    def build_harness(self):
        self.harness_ok = True
        if not self.cfg.get("harness"):
            return
        with Lock("gobuild"):
            rc, out = sh(["go", "build", "-tags", "verif", "-o", os.path.join(BIN, self.cfg["harness"]), "./cmd/" + self.cfg["harness"]],
                         cwd=HARNESS, env=GOENV)
        if rc != 0:
            self.harness_ok = False
            self.broken.append(("correspondence", "harness-build", out[-2000:]))

    def run_one(self, seed, args, tag):
        """harness -> trace -> driver; returns dict(result)"""
        trace = os.path.join(self.rundir, f"trace-{tag}.jsonl")
        stats = trace + ".stats.json"
        for f in (trace, stats):
            if os.path.exists(f):
                os.remove(f)
        t0 = time.time()
        cmd = [os.path.join(BIN, self.cfg["harness"]), "--seed", str(seed), "--tier", self.tier, "--out", trace, "--stats", stats] + args
        try:
            rc, out = sh(cmd, cwd=self.rundir, env=dict(GOENV, GOMEMLIMIT="12GiB"), timeout=self.cfg.get("harness_timeout", 3000))
        except subprocess.TimeoutExpired:
            rc, out = 124, "harness timeout"
        res = dict(seed=seed, args=args, tag=tag, trace=trace, rc=rc, harness_out=out[-3000:], diffs=[], monitors=[], errors=[],
                   summary={}, stats={}, harness_s=round(time.time() - t0, 2))
        if rc != 0:
            res["errors"].append((0, f"harness exit {rc}: {out[-600:]}"))
            return res
        if os.path.exists(stats):
            res["stats"] = json.load(open(stats))
        if not self.driver_ok:
            return res
        drv = os.path.join(LEAN, ".lake", "build", "bin", self.cfg["driver"])
        with open(trace) as fin:
            rc2, dout = sh([drv], stdin=fin, timeout=3000)
        for ln in dout.splitlines():
            m = re.match(r"DIFF (\d+) (.*)", ln)
            if m: res["diffs"].append((int(m.group(1)), m.group(2)[:1500])); continue
            m = re.match(r"MONITOR (\d+) (\S+) (.*)", ln)
            if m:
                # monitors that state ANOTHER property (shared drivers) are recorded, never reported under this id
                if m.group(2) in self.cfg.get("foreign_monitors", []):
                    res.setdefault("foreign", []).append((int(m.group(1)), m.group(2)))
                else:
                    res["monitors"].append((int(m.group(1)), m.group(2), m.group(3)[:1500]))
                continue
            m = re.match(r"ERROR (\d+) (.*)", ln)
            if m: res["errors"].append((int(m.group(1)), m.group(2)[:500])); continue
            m = re.match(r"SUMMARY (.*)", ln)
            if m: res["summary"] = dict(kv.split("=") for kv in m.group(1).split())
        if rc2 != 0 or not res["summary"]:
            res["errors"].append((0, f"driver exit {rc2}: {dout[-400:]}"))
        return res

    def is_known(self, name, detail):
        try:
            d = json.loads(detail)
        except Exception:
            d = {}
        for k in self.known:
            if k["monitor"] == name and all(isinstance(d, dict) and d.get(a) == b for a, b in k.get("signature", {}).items()):
                return k
        return None

    @staticmethod
    def case_of(trace, line):
        """the lines of the case containing `line` (from the preceding reset)."""
        cur = []
        with open(trace) as f:
            for i, ln in enumerate(f, 1):
                if '"op":"reset"' in ln:
                    if i > line:
                        break
                    cur = []
                cur.append(ln.rstrip("\n"))
                if i == line:
                    break
        return cur[-400:]

    def trace_metrics(self, trace):
        """distinct / non-trivial case counts measured from the trace itself."""
        cases, seen, nontriv = 0, set(), 0
        h, nt = hashlib.sha256(), False

        def flush():
            nonlocal cases, nontriv, h, nt
            if cases > 0:
                d = h.hexdigest()
                if d not in seen:
                    seen.add(d)
                    if nt:
                        nontriv += 1
        if not os.path.exists(trace):
            return dict(cases=0, distinct=0, distinct_nontrivial=0)
        with open(trace) as f:
            for ln in f:
                if '"op":"reset"' in ln:
                    flush(); cases += 1; h, nt = hashlib.sha256(), False
                    h.update(ln.encode()); continue
                if cases == 0:
                    cases = 1
                try:
                    j = json.loads(ln)
                except Exception:
                    continue
                out = j.pop("out", None)
                h.update(json.dumps(j, sort_keys=True).encode())
                if isinstance(out, dict):
                    e = out.get("err", None)
                    if e == "" or (e is None and out):
                        nt = True
                elif out not in (None, "", False):
                    nt = True
            flush()
        return dict(cases=cases, distinct=len(seen), distinct_nontrivial=nontriv)

    def rerun_identical(self, results):
        """Execution-determinism oracle: other properties' harnesses (whose traces record full module state after every
        real begin/end-block or message) are run twice with the same seed in two processes; Go randomises map iteration
        per range statement and per process, so state that depends on it makes the two traces differ."""
        found = []
        specs = self.cfg.get("rerun_identical", {}).get(self.tier, [])
        if not specs:
            return found

        def one(spec):
            h = spec["harness"]
            with Lock("gobuild"):
                rc, out = sh(["go", "build", "-tags", "verif", "-o", os.path.join(BIN, h), "./cmd/" + h], cwd=HARNESS, env=GOENV)
            if rc != 0:
                return (spec, None, "build: " + out[-800:])
            paths = []
            for k in ("a", "b"):
                tpath = os.path.join(self.rundir, f"rerun-{h}-{k}.jsonl")
                if os.path.exists(tpath):
                    os.remove(tpath)
                try:
                    rc, out = sh([os.path.join(BIN, h), "--seed", str(self.seed), "--tier", "quick", "--out", tpath, "--stats", os.devnull] + spec.get("args", []),
                                 cwd=self.rundir, env=dict(GOENV, GOMEMLIMIT="12GiB"), timeout=1500)
                except subprocess.TimeoutExpired:
                    rc, out = 124, "timeout"
                if rc != 0:
                    return (spec, None, f"harness exit {rc}: {out[-600:]}")
                paths.append(tpath)
            with open(paths[0]) as fa, open(paths[1]) as fb:
                n = 0
                for n, (la, lb) in enumerate(zip(fa, fb), 1):
                    if la != lb:
                        return (spec, dict(line=n, a=la[:3000], b=lb[:3000], traces=paths, lines=n), None)
                if fa.readline() or fb.readline():
                    return (spec, dict(line=n + 1, a="<length differs>", b="<length differs>", traces=paths, lines=n), None)
            return (spec, dict(line=0, lines=n, traces=paths), None)

        with ThreadPoolExecutor(max_workers=self.cfg.get("parallel", 4)) as ex:
            outs = list(ex.map(one, specs))
        self.rerun_summary = []
        for spec, d, err in outs:
            if err:
                self.broken.append(("correspondence", f"rerun {spec['harness']}", err)); continue
            self.rerun_summary.append(dict(harness=spec["harness"], args=spec.get("args", []), lines=d["lines"], identical=(d["line"] == 0)))
            if d["line"]:
                r = dict(seed=self.seed, args=spec.get("args", []), trace=d["traces"][0])
                found.append((r, d["line"], "same_inputs_different_execution",
                              json.dumps(dict(harness=spec["harness"], first_differing_line=d["line"], run_a=d["a"], run_b=d["b"]))))
        return found

    # ---- 5. decide
    def write_replay(self, name, payload):
        os.makedirs(os.path.join(ROOT, "replays"), exist_ok=True)
        p = os.path.join(ROOT, "replays", f"{self.pid}-{name}.json")
        json.dump(payload, open(p, "w"), indent=1)
        return p

    def source_hashes(self):
        out = {}
        for f in self.cfg.get("anchors", []):
            p = os.path.join(REPO, f)
            if os.path.exists(p):
                out[f] = hashlib.sha256(open(p, "rb").read()).hexdigest()[:16]
        return out

    def main(self):
        cfg = self.cfg
        self.regenerate()
        self.prove()
        self.audit()
        self.build_harness()
        results, known_lines, violations = [], [], []
        runs = cfg.get("runs", {}).get(self.tier, [{"args": []}])
        if cfg.get("harness") and self.harness_ok:
            jobs = []
            # corpus first: recorded (seed,args) pairs of past disagreements
            cp = os.path.join(ROOT, "corpus", self.pid, "seeds.json")
            if os.path.exists(cp):
                for i, c in enumerate(json.load(open(cp))):
                    jobs.append((c["seed"], c.get("args", []), f"corpus{i}"))
            for i, r in enumerate(runs):
                for s in range(r.get("seeds", 1)):
                    seed = self.seed if s == 0 else splitmix(self.seed, s)
                    if "seed_base" in r:     # enumerating runs (e.g. the 8 residue classes of a sweep): seeds base, base+1, ...
                        seed = r["seed_base"] + s
                    jobs.append((seed, r.get("args", []), f"{self.tier}{i}-{s}"))
            with ThreadPoolExecutor(max_workers=cfg.get("parallel", 4)) as ex:
                results = list(ex.map(lambda j: self.run_one(*j), jobs))
        new_mon = []
        for r in results:
            for (line, name, detail) in r["monitors"]:
                k = self.is_known(name, detail)
                if k:
                    known_lines.append(k)
                else:
                    new_mon.append((r, line, name, detail))
            for (line, d) in r["diffs"]:
                self.broken.append(("correspondence", f"DIFF line {line} seed {r['seed']}", d))
            for (line, d) in r["errors"]:
                self.broken.append(("correspondence", f"ERROR line {line} seed {r['seed']}", d))
        new_mon += self.rerun_identical(results)
        search_runs = 0
        if not new_mon and self.broken and cfg.get("harness") and self.harness_ok and self.driver_ok:
            # something no longer checks: search for a concrete failing input with the wide generators
            sc = cfg.get("search", {"args": [], "seeds": 4})
            jobs = [(splitmix(self.seed, 100 + s), sc.get("args", []), f"search{s}") for s in range(sc.get("seeds", 4))]
            # directed hunts (e.g. an exhaustive in-process comparison that writes only the disagreeing inputs to the trace)
            for k, extra in enumerate(sc.get("also", [])):
                jobs += [(splitmix(self.seed, 200 + 10 * k + s), extra.get("args", []), f"hunt{k}_{s}") for s in range(extra.get("seeds", 1))]
            with ThreadPoolExecutor(max_workers=cfg.get("parallel", 4)) as ex:
                sres = list(ex.map(lambda j: self.run_one(*j), jobs))
            search_runs = len(sres)
            for r in sres:
                for (line, name, detail) in r["monitors"]:
                    if not self.is_known(name, detail):
                        new_mon.append((r, line, name, detail))
            results += sres
        exit_code = 0
        seen_known = set()
        for k in known_lines:
            if k["id"] not in seen_known:
                seen_known.add(k["id"])
                print(f"KNOWN-FINDING: property={self.pid} {k['what']}")
        if new_mon:
            r, line, name, detail = new_mon[0]
            path = self.write_replay(f"{r['seed']}-{name}", dict(
                property=self.pid, kind="failing-input", monitor=name, detail=detail, seed=r["seed"], args=r["args"], tier=self.tier,
                harness=cfg["harness"], trace_line=line, case=self.case_of(r["trace"], line),
                also_broken=[(k, n) for k, n, _ in self.broken][:20],
                how_to_replay=f"./check {self.pid} --replay <this file>"))
            print(f"VIOLATION property={self.pid} replay={path}")
            violations.append(path)
            exit_code = 1
        elif self.broken:
            path = self.write_replay("unproved", dict(
                property=self.pid, kind="no-failing-input-found",
                no_longer_checks=[dict(kind=k, name=n, detail=d) for k, n, d in self.broken][:40],
                searched=dict(runs=search_runs, seed=self.seed)))
            print(f"VIOLATION property={self.pid} replay={path} no-failing-input-found")
            violations.append(path)
            exit_code = 1
        self.evidence(results, violations, known_lines)
        if exit_code == 0:
            print(f"OK property={self.pid} tier={self.tier} theorems={self.discharged}/{len(self.obligations)} "
                  f"lines={sum(int(r['summary'].get('lines', 0)) for r in results)} wall={time.time()-self.t0:.1f}s")
        return exit_code

    def evidence(self, results, violations, known_lines):
        cfg = self.cfg
        ops, errs, tags, samples = {}, {}, {}, []
        cases = distinct = nontriv = lines = 0
        for r in results:
            st = r.get("stats", {})
            for k, v in st.get("ops", {}).items(): ops[k] = ops.get(k, 0) + v
            for k, v in st.get("errs", {}).items(): errs[k] = errs.get(k, 0) + v
            for k, v in st.get("tags", {}).items(): tags[k] = tags.get(k, 0) + v
            if len(samples) < 4:
                samples += st.get("samples", [])[:2]
            m = self.trace_metrics(r["trace"])
            cases += m["cases"]; distinct += m["distinct"]; nontriv += m["distinct_nontrivial"]
            lines += int(r["summary"].get("lines", 0))
        axioms = sorted({a for v in self.axioms.values() for a in v})
        cov = {
            "obligations": max(1, len(self.obligations)),
            "discharged": self.discharged,
            "checker_cmd": f"cd /verif/lean && lake build {cfg['lean_props']} && lake env lean ../run/{self.pid}/Audit.lean   # #print axioms per theorem"
                           + ("; lake env leanchecker " + cfg["lean_props"] if self.tier == "thorough" else ""),
            "trusted_base": ["Lean 4.33.0 kernel"] + [f"axiom {a}" for a in axioms] + cfg.get("trusted_base", []),
            "theorems": self.obligations,
            "axioms_per_theorem": self.axioms,
            "evaluations": max(lines, 1) if results else len(self.obligations),
            "distinct_nontrivial": nontriv if results else len(self.obligations),
            "rule": cfg.get("nontrivial_rule", "a case = one generated operation history (from reset to next reset); distinct = distinct sha256 of its inputs; "
                                               "non-trivial = at least one operation was accepted by the implementation (err == \"\")"),
            "traces_validated_against_impl": cases,
            "distinct_cases": distinct,
            "trace_lines_compared": lines,
            "samples": samples[:4] or [{"theorems": self.obligations[:5]}],
            "op_distribution": ops, "error_kinds_hit": errs, "boundary_classes_hit": tags,
            "diffs": sum(len(r["diffs"]) for r in results),
            "monitors_fired": sum(len(r["monitors"]) for r in results),
            "known_findings_seen": sorted({k["id"] for k in known_lines}),
            "no_longer_checks": [f"{k}:{n}" for k, n, _ in self.broken][:20],
            "generated_from_source": cfg.get("extract", []),
            "source_sha256_16": self.source_hashes(),
            "explanation": cfg.get("explanation", ""),
            "rerun_identical": getattr(self, "rerun_summary", []),
        }
        ev = {
            "property_id": self.pid, "tier": self.tier, "seed": self.seed, "level": cfg.get("level", "proof"),
            "coverage": cov, "assumptions": cfg.get("assumptions", []),
            "wall_s": round(time.time() - self.t0, 2), "violations": len(violations),
        }
        os.makedirs(os.path.join(ROOT, "evidence"), exist_ok=True)
        json.dump(ev, open(os.path.join(ROOT, "evidence", self.pid + ".json"), "w"), indent=1)


def replay(pid, path):
    rp = json.load(open(path))
    c = Check(pid, rp.get("tier", "quick"), rp.get("seed", 1))
    if rp.get("kind") != "failing-input":
        print(json.dumps(rp, indent=1)); return 0
    c.regenerate(); c.prove(); c.build_harness()
    if rp.get("monitor") == "same_inputs_different_execution":
        h = json.loads(rp["detail"])["harness"]
        c.cfg["rerun_identical"] = {c.tier: [x for t in c.cfg.get("rerun_identical", {}).values() for x in t if x["harness"] == h][:1]}
        found = c.rerun_identical([])
        for f in found:
            print("MONITOR", f[1], f[2], f[3][:600])
        print("reproduced" if found else "not reproduced")
        return 1 if found else 0
    r = c.run_one(rp["seed"], rp["args"], "replay")
    hit = [m for m in r["monitors"] if m[1] == rp["monitor"]]
    for m in r["monitors"][:10]:
        print("MONITOR", *m)
    for d in r["diffs"][:10]:
        print("DIFF", *d)
    print("reproduced" if hit else "not reproduced")
    return 1 if hit else 0


def main():
    import argparse
    ap = argparse.ArgumentParser()
    ap.add_argument("pid")
    ap.add_argument("--tier", default=os.environ.get("VERIF_TIER", "quick"))
    ap.add_argument("--replay")
    a = ap.parse_args()
    seed = int(os.environ.get("VERIF_SEED", "1"))
    if a.replay:
        sys.exit(replay(a.pid, a.replay))
    sys.exit(Check(a.pid, a.tier, seed).main())


if __name__ == "__main__":
    main()
