#!/bin/sh
# offline setup: build Lean project + Go harness from files on disk
cd "$(dirname "$0")" && exec python3 lib/vsetup.py "$@"
