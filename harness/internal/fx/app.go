package fx

import (
	"fmt"
	"os"
	"strings"
	"time"

	abci "github.com/cometbft/cometbft/abci/types"
	cmtproto "github.com/cometbft/cometbft/proto/tendermint/types"

	errorsmod "cosmossdk.io/errors"
	sdkmath "cosmossdk.io/math"

	sdk "github.com/cosmos/cosmos-sdk/types"
	minttypes "github.com/cosmos/cosmos-sdk/x/mint/types"

	band "github.com/bandprotocol/chain/v3/app"
	bandtesting "github.com/bandprotocol/chain/v3/testing"
)

// App is the in-process BandApp plus a stable index for every test account
// (bandtesting derives its accounts from time.Now(), so addresses are never compared).
type App struct {
	*band.BandApp
	Dir     string
	Ctx     sdk.Context // uncached context on the committed state after block 1
	AddrIdx map[string]int
	Names   []string
}

// NewApp builds the full application on a MemDB, commits one empty block so that genesis
// state is visible, and returns an uncached context (callers branch it with CacheContext).
func NewApp() *App {
	dir, err := os.MkdirTemp("", "verif-app-")
	Must(err)
	app := bandtesting.SetupWithCustomHome(false, dir)
	_, err = app.FinalizeBlock(&abci.RequestFinalizeBlock{Height: 1, Hash: []byte{1}, Time: time.Unix(1_700_000_000, 0).UTC()})
	Must(err)
	_, err = app.Commit()
	Must(err)
	ctx := app.BaseApp.NewUncachedContext(false, cmtproto.Header{ChainID: bandtesting.ChainID})
	a := &App{BandApp: app, Dir: dir, AddrIdx: map[string]int{}}
	a.Ctx = ctx.WithBlockHeight(2).WithBlockTime(time.Unix(1_700_000_010, 0).UTC()).WithChainID(bandtesting.ChainID)
	for _, acc := range a.Accounts() {
		a.Index(acc.Address)
	}
	return a
}

func (a *App) Close() { os.RemoveAll(a.Dir) }

// Accounts in a fixed role order.
func (a *App) Accounts() []bandtesting.Account {
	l := []bandtesting.Account{bandtesting.Owner, bandtesting.Treasury, bandtesting.FeePayer, bandtesting.Alice, bandtesting.Bob, bandtesting.Carol, bandtesting.MissedValidator}
	return append(l, bandtesting.Validators...)
}

// Index maps an address to a small stable integer.
func (a *App) Index(addr []byte) int {
	k := string(addr)
	if i, ok := a.AddrIdx[k]; ok {
		return i
	}
	i := len(a.AddrIdx)
	a.AddrIdx[k] = i
	return i
}

// ErrStr canonicalises an error to "<codespace>/<code>" (registered errors) or "" for nil.
func ErrStr(err error) string {
	if err == nil {
		return ""
	}
	cs, code, _ := errorsmod.ABCIInfo(err, false)
	return fmt.Sprintf("%s/%d", cs, code)
}

// Try runs f, converting a panic into the error string "panic/<first line>".
func Try(f func() error) (s string) {
	defer func() {
		if r := recover(); r != nil {
			msg := fmt.Sprint(r)
			if i := strings.IndexByte(msg, '\n'); i >= 0 {
				msg = msg[:i]
			}
			s = "panic/" + msg
		}
	}()
	return ErrStr(f())
}

// Atomically runs f on a branch of ctx and writes the branch only when f returns nil,
// which is what baseapp.runTx does for the messages of one transaction.
func Atomically(ctx sdk.Context, f func(ctx sdk.Context) error) string {
	cctx, write := ctx.CacheContext()
	s := Try(func() error { return f(cctx) })
	if s == "" {
		write()
	}
	return s
}

// Fund mints `amt` of denom to addr (through the mint module account).
func (a *App) Fund(ctx sdk.Context, addr sdk.AccAddress, denom string, amt sdkmath.Int) {
	if !amt.IsPositive() {
		return
	}
	coins := sdk.NewCoins(sdk.NewCoin(denom, amt))
	Must(a.BankKeeper.MintCoins(ctx, minttypes.ModuleName, coins))
	Must(a.BankKeeper.SendCoinsFromModuleToAccount(ctx, minttypes.ModuleName, addr, coins))
}
