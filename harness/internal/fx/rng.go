// Package fx: shared fixture for the correspondence harness — PRNG, trace writer, app setup.
package fx

// Rng is splitmix64: every random choice of a harness run derives from one state.
type Rng struct{ s uint64 }

// NewRng hashes the seed into the initial state: consecutive seeds give unrelated streams (with the plain
// seed*gamma start, seed s+1 was the stream of seed s shifted by one draw, so neighbouring seeds repeated cases).
func NewRng(seed uint64) *Rng {
	z := seed + 0x1234567
	z = (z ^ (z >> 30)) * 0xBF58476D1CE4E5B9
	z = (z ^ (z >> 27)) * 0x94D049BB133111EB
	return &Rng{s: z ^ (z >> 31)}
}

func (r *Rng) U64() uint64 {
	r.s += 0x9E3779B97F4A7C15
	z := r.s
	z = (z ^ (z >> 30)) * 0xBF58476D1CE4E5B9
	z = (z ^ (z >> 27)) * 0x94D049BB133111EB
	return z ^ (z >> 31)
}

// Intn returns a value in [0,n).
func (r *Rng) Intn(n int) int {
	if n <= 0 {
		return 0
	}
	return int(r.U64() % uint64(n))
}

// Range returns a value in [lo,hi].
func (r *Rng) Range(lo, hi int) int { return lo + r.Intn(hi-lo+1) }

func (r *Rng) Bool() bool { return r.U64()&1 == 1 }

// Chance is true with probability num/den.
func (r *Rng) Chance(num, den int) bool { return r.Intn(den) < num }

func (r *Rng) Fork() *Rng { return NewRng(r.U64()) }

// PickU64 picks one of the given values.
func (r *Rng) PickU64(vs ...uint64) uint64 { return vs[r.Intn(len(vs))] }
func (r *Rng) PickI64(vs ...int64) int64   { return vs[r.Intn(len(vs))] }
func (r *Rng) PickInt(vs ...int) int       { return vs[r.Intn(len(vs))] }
func (r *Rng) PickStr(vs ...string) string { return vs[r.Intn(len(vs))] }

func (r *Rng) Bytes(n int) []byte {
	b := make([]byte, n)
	for i := range b {
		b[i] = byte(r.U64())
	}
	return b
}

// Perm returns a permutation of 0..n-1.
func (r *Rng) Perm(n int) []int {
	p := make([]int, n)
	for i := range p {
		p[i] = i
	}
	for i := n - 1; i > 0; i-- {
		j := r.Intn(i + 1)
		p[i], p[j] = p[j], p[i]
	}
	return p
}
