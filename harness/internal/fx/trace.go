package fx

import (
	"bufio"
	"encoding/json"
	"flag"
	"fmt"
	"os"
	"sort"
	"strconv"
)

// M is a JSON object.
type M = map[string]any

// Trace writes one JSON object per line (keys sorted by encoding/json) and keeps statistics
// about the distribution of what was generated, reported in the evidence file.
type Trace struct {
	w       *bufio.Writer
	f       *os.File
	Lines   int
	Cases   int
	OpHist  map[string]int
	ErrHist map[string]int
	TagHist map[string]int
	Samples []M
}

func NewTrace(path string) *Trace {
	f, err := os.Create(path)
	if err != nil {
		panic(err)
	}
	return &Trace{w: bufio.NewWriterSize(f, 1<<20), f: f, OpHist: map[string]int{}, ErrHist: map[string]int{}, TagHist: map[string]int{}}
}

// Reset starts a new case.
func (t *Trace) Reset(extra M) {
	m := M{"op": "reset"}
	for k, v := range extra {
		m[k] = v
	}
	t.Cases++
	t.emit(m)
}

// Op writes an operation line; m must contain "op"; "out" is the implementation's observation.
func (t *Trace) Op(m M) {
	op, _ := m["op"].(string)
	t.OpHist[op]++
	if out, ok := m["out"].(M); ok {
		if e, ok := out["err"].(string); ok {
			t.ErrHist[op+":"+e]++
		}
	}
	if len(t.Samples) < 6 && t.Lines%7 == 1 {
		t.Samples = append(t.Samples, m)
	}
	t.emit(m)
}

// Tag counts a boundary class / branch the generator hit.
func (t *Trace) Tag(s string) { t.TagHist[s]++ }

func (t *Trace) emit(m M) {
	b, err := json.Marshal(m)
	if err != nil {
		panic(err)
	}
	t.w.Write(b)
	t.w.WriteByte('\n')
	t.Lines++
}

func (t *Trace) Close() {
	t.w.Flush()
	t.f.Close()
}

// WriteStats writes the generator statistics next to the trace.
func (t *Trace) WriteStats(path string, extra M) {
	m := M{"lines": t.Lines, "cases": t.Cases, "ops": t.OpHist, "errs": t.ErrHist, "tags": t.TagHist, "samples": t.Samples}
	for k, v := range extra {
		m[k] = v
	}
	b, _ := json.MarshalIndent(m, "", " ")
	os.WriteFile(path, b, 0o644)
}

// Args are the common command-line arguments of every harness command.
type Args struct {
	Seed   uint64
	Tier   string
	Out    string
	Stats  string
	Cases  int
	Replay string
	Mode   string
}

func ParseArgs() Args {
	var a Args
	flag.Uint64Var(&a.Seed, "seed", 1, "PRNG seed")
	flag.StringVar(&a.Tier, "tier", "quick", "quick|thorough")
	flag.StringVar(&a.Out, "out", "trace.jsonl", "trace output")
	flag.StringVar(&a.Stats, "stats", "", "stats output (default <out>.stats.json)")
	flag.IntVar(&a.Cases, "cases", 0, "number of cases (0 = tier default)")
	flag.StringVar(&a.Replay, "replay", "", "replay file: re-run the recorded case")
	flag.StringVar(&a.Mode, "mode", "", "optional sub-mode")
	flag.Parse()
	if a.Stats == "" {
		a.Stats = a.Out + ".stats.json"
	}
	return a
}

// U is a uint64 rendered so that JSON keeps all digits (encoding/json does for integers).
func U(v uint64) json.Number { return json.Number(strconv.FormatUint(v, 10)) }
func I(v int64) json.Number  { return json.Number(strconv.FormatInt(v, 10)) }

// SortedKeys of a string-keyed map.
func SortedKeys[V any](m map[string]V) []string {
	ks := make([]string, 0, len(m))
	for k := range m {
		ks = append(ks, k)
	}
	sort.Strings(ks)
	return ks
}

func Must(err error) {
	if err != nil {
		panic(err)
	}
}

func Fatalf(f string, a ...any) {
	fmt.Fprintf(os.Stderr, f+"\n", a...)
	os.Exit(2)
}
