package xt

import (
	"fmt"
	"go/ast"
	"go/token"
	"strings"
)

// FuncSpec tells the translator how to read one Go function as a Lean definition over Int.
// Atoms map the source text of an expression (a parameter, a selector chain, a method call
// such as `blockTime.Unix()`, or even a whole boolean sub-expression) to a Lean argument name;
// every leaf of the function body must be an atom, a local, an integer literal or a package
// constant — anything else makes extraction fail (fail-closed).
type FuncSpec struct {
	LeanName string
	Args     []LeanArg         // Lean binder list, in order
	Atoms    map[string]string // Go source text -> Lean term
	Kind     string            // "i64" or "u64": wrap-around width of + - * on this function
	Ret      string            // Lean return type: "Int" or "Bool"
	Consts   *Pkg              // package for constant lookup (may be nil)
}

type LeanArg struct{ Name, Type string }

type tr struct {
	p    *Pkg
	spec FuncSpec
	res  string // named result, if any
}

// TranslateFunc renders fd as a Lean `def`.
func TranslateFunc(p *Pkg, fd *ast.FuncDecl, spec FuncSpec) string {
	t := &tr{p: p, spec: spec}
	if fd.Type.Results != nil && len(fd.Type.Results.List) == 1 && len(fd.Type.Results.List[0].Names) == 1 {
		t.res = fd.Type.Results.List[0].Names[0].Name
	}
	var b strings.Builder
	fmt.Fprintf(&b, "def %s", spec.LeanName)
	for _, a := range spec.Args {
		fmt.Fprintf(&b, " (%s : %s)", a.Name, a.Type)
	}
	fmt.Fprintf(&b, " : %s :=\n", spec.Ret)
	pre := ""
	if t.res != "" {
		pre = fmt.Sprintf("  let %s : Int := 0\n", t.res)
	}
	body := t.stmts(fd.Body.List, 1)
	b.WriteString(pre + body + "\n")
	return b.String()
}

func ind(n int) string { return strings.Repeat("  ", n) }

func (t *tr) fail(n ast.Node, why string) {
	Fail("cannot translate %s in %s: %s", t.p.Src(n), t.spec.LeanName, why)
}

// stmts translates a statement list in "rest-of-function" style; the list must end in a return
// on every path.
func (t *tr) stmts(l []ast.Stmt, d int) string {
	if len(l) == 0 {
		if t.res != "" {
			return ind(d) + t.res
		}
		Fail("%s: control reaches end of function without return", t.spec.LeanName)
	}
	s, rest := l[0], l[1:]
	switch x := s.(type) {
	case *ast.ReturnStmt:
		if len(x.Results) == 0 {
			if t.res == "" {
				t.fail(x, "bare return without named result")
			}
			return ind(d) + t.res
		}
		if len(x.Results) != 1 {
			t.fail(x, "multiple results")
		}
		if t.spec.Ret == "Bool" {
			return ind(d) + "decide (" + t.cond(x.Results[0]) + ")"
		}
		return ind(d) + t.expr(x.Results[0])
	case *ast.AssignStmt:
		if len(x.Lhs) != 1 || len(x.Rhs) != 1 {
			t.fail(x, "multi-assign")
		}
		id, ok := x.Lhs[0].(*ast.Ident)
		if !ok {
			t.fail(x, "assign to non-identifier")
		}
		return ind(d) + fmt.Sprintf("let %s := %s\n", id.Name, t.assignRhs(x, id.Name)) + t.stmts(rest, d)
	case *ast.IncDecStmt:
		id, ok := x.X.(*ast.Ident)
		if !ok {
			t.fail(x, "incdec of non-identifier")
		}
		op := "add"
		if x.Tok == token.DEC {
			op = "sub"
		}
		return ind(d) + fmt.Sprintf("let %s := %s.%s %s 1\n", id.Name, t.spec.Kind, op, id.Name) + t.stmts(rest, d)
	case *ast.DeclStmt:
		gd := x.Decl.(*ast.GenDecl)
		out := ""
		for _, sp := range gd.Specs {
			vs := sp.(*ast.ValueSpec)
			for i, n := range vs.Names {
				v := "0"
				if i < len(vs.Values) {
					v = t.expr(vs.Values[i])
				}
				out += ind(d) + fmt.Sprintf("let %s : Int := %s\n", n.Name, v)
			}
		}
		return out + t.stmts(rest, d)
	case *ast.IfStmt:
		if x.Init != nil {
			t.fail(x, "if with init")
		}
		c := t.cond(x.Cond)
		if returns(x.Body) {
			// if c { ...return } [else {...}] rest
			var els string
			if x.Else != nil {
				eb, ok := x.Else.(*ast.BlockStmt)
				if !ok {
					eb = &ast.BlockStmt{List: []ast.Stmt{x.Else}}
				}
				els = t.stmts(append(append([]ast.Stmt{}, eb.List...), rest...), d+1)
			} else {
				els = t.stmts(rest, d+1)
			}
			return ind(d) + "if " + c + " then\n" + t.stmts(x.Body.List, d+1) + "\n" + ind(d) + "else\n" + els
		}
		// non-returning branches: only assignments to existing variables are allowed
		vars := assigned(x.Body)
		var elseBody []ast.Stmt
		if x.Else != nil {
			eb, ok := x.Else.(*ast.BlockStmt)
			if !ok {
				eb = &ast.BlockStmt{List: []ast.Stmt{x.Else}}
			}
			if returns(eb) {
				t.fail(x, "else-branch returns but then-branch does not")
			}
			elseBody = eb.List
			for _, v := range assigned(eb) {
				if !contains(vars, v) {
					vars = append(vars, v)
				}
			}
		}
		if len(vars) == 0 {
			t.fail(x, "if without effect")
		}
		tuple := strings.Join(vars, ", ")
		pat := tuple
		if len(vars) > 1 {
			tuple = "(" + tuple + ")"
			pat = tuple
		}
		thenS := t.block(x.Body.List, d+1, tuple)
		elseS := ind(d+1) + tuple
		if elseBody != nil {
			elseS = t.block(elseBody, d+1, tuple)
		}
		return ind(d) + "let " + pat + " :=\n" + ind(d+1) + "if " + c + " then\n" + thenS + "\n" + ind(d+1) + "else\n" + elseS + "\n" + t.stmts(rest, d)
	case *ast.RangeStmt:
		// for _, v := range xs { acc-updating body }  ==>  let acc := xs.foldl (fun acc v => body; acc) acc
		vars := assigned(x.Body)
		if len(vars) != 1 {
			t.fail(x, "range loop must update exactly one accumulator")
		}
		if returns(x.Body) {
			t.fail(x, "return inside range loop")
		}
		acc := vars[0]
		v := "_"
		if x.Value != nil {
			v = x.Value.(*ast.Ident).Name
		}
		if x.Key != nil {
			if k, ok := x.Key.(*ast.Ident); !ok || k.Name != "_" {
				t.fail(x, "range key used")
			}
		}
		xs := t.expr(x.X)
		body := t.block(x.Body.List, d+2, acc)
		return ind(d) + fmt.Sprintf("let %s := %s.foldl (fun %s %s =>\n%s) %s\n", acc, xs, acc, v, body, acc) + t.stmts(rest, d)
	case *ast.BlockStmt:
		return t.stmts(append(append([]ast.Stmt{}, x.List...), rest...), d)
	}
	t.fail(s, "unsupported statement")
	return ""
}

// block translates a non-returning statement list followed by the value `result`.
func (t *tr) block(l []ast.Stmt, d int, result string) string {
	out := ""
	for _, s := range l {
		switch x := s.(type) {
		case *ast.AssignStmt:
			if len(x.Lhs) != 1 || len(x.Rhs) != 1 {
				t.fail(x, "multi-assign")
			}
			id, ok := x.Lhs[0].(*ast.Ident)
			if !ok {
				t.fail(x, "assign to non-identifier")
			}
			out += ind(d) + fmt.Sprintf("let %s := %s\n", id.Name, t.assignRhs(x, id.Name))
		case *ast.IncDecStmt:
			id := x.X.(*ast.Ident)
			op := "add"
			if x.Tok == token.DEC {
				op = "sub"
			}
			out += ind(d) + fmt.Sprintf("let %s := %s.%s %s 1\n", id.Name, t.spec.Kind, op, id.Name)
		case *ast.IfStmt:
			if x.Init != nil || x.Else != nil || returns(x.Body) {
				t.fail(x, "nested if form")
			}
			vars := assigned(x.Body)
			tuple := strings.Join(vars, ", ")
			if len(vars) > 1 {
				tuple = "(" + tuple + ")"
			}
			out += ind(d) + "let " + tuple + " :=\n" + ind(d+1) + "if " + t.cond(x.Cond) + " then\n" + t.block(x.Body.List, d+2, tuple) + "\n" + ind(d+1) + "else\n" + ind(d+2) + tuple + "\n"
		default:
			t.fail(s, "unsupported statement in block")
		}
	}
	return out + ind(d) + result
}

func (t *tr) assignRhs(x *ast.AssignStmt, lhs string) string {
	r := t.expr(x.Rhs[0])
	switch x.Tok {
	case token.DEFINE, token.ASSIGN:
		return r
	case token.ADD_ASSIGN:
		return fmt.Sprintf("%s.add %s %s", t.spec.Kind, lhs, par(r))
	case token.SUB_ASSIGN:
		return fmt.Sprintf("%s.sub %s %s", t.spec.Kind, lhs, par(r))
	case token.MUL_ASSIGN:
		return fmt.Sprintf("%s.mul %s %s", t.spec.Kind, lhs, par(r))
	}
	t.fail(x, "unsupported assignment operator")
	return ""
}

func par(s string) string {
	if strings.ContainsAny(s, " ") && !(strings.HasPrefix(s, "(") && strings.HasSuffix(s, ")")) {
		return "(" + s + ")"
	}
	return s
}

func (t *tr) atom(e ast.Expr) (string, bool) {
	src := strings.Join(strings.Fields(t.p.Src(e)), " ")
	v, ok := t.spec.Atoms[src]
	return v, ok
}

func (t *tr) expr(e ast.Expr) string {
	if a, ok := t.atom(e); ok {
		return a
	}
	switch x := e.(type) {
	case *ast.ParenExpr:
		return "(" + t.expr(x.X) + ")"
	case *ast.BasicLit:
		if x.Kind == token.INT {
			return strings.ReplaceAll(x.Value, "_", "")
		}
	case *ast.Ident:
		return x.Name // local variable (Lean rejects it if unbound: fail-closed at build)
	case *ast.SelectorExpr:
		// package constant like types.MaxGuaranteeBlockTime
		if t.spec.Consts != nil && t.spec.Consts.Has(x.Sel.Name) {
			return t.spec.Consts.Int(x.Sel.Name).String()
		}
	case *ast.UnaryExpr:
		if x.Op == token.SUB {
			return fmt.Sprintf("(%s.neg %s)", t.spec.Kind, par(t.expr(x.X)))
		}
	case *ast.BinaryExpr:
		a, b := par(t.expr(x.X)), par(t.expr(x.Y))
		k := t.spec.Kind
		switch x.Op {
		case token.ADD:
			return fmt.Sprintf("%s.add %s %s", k, a, b)
		case token.SUB:
			return fmt.Sprintf("%s.sub %s %s", k, a, b)
		case token.MUL:
			return fmt.Sprintf("%s.mul %s %s", k, a, b)
		case token.QUO:
			return fmt.Sprintf("%s.div %s %s", k, a, b)
		case token.REM:
			return fmt.Sprintf("%s.mod %s %s", k, a, b)
		}
	case *ast.CallExpr:
		if id, ok := x.Fun.(*ast.Ident); ok {
			switch id.Name {
			case "max", "min":
				if len(x.Args) == 2 {
					return fmt.Sprintf("%s %s %s", id.Name, par(t.expr(x.Args[0])), par(t.expr(x.Args[1])))
				}
			case "int64":
				return fmt.Sprintf("i64.wrap %s", par(t.expr(x.Args[0])))
			case "uint64":
				return fmt.Sprintf("u64.wrap %s", par(t.expr(x.Args[0])))
			}
		}
	}
	t.fail(e, "unsupported expression")
	return ""
}

func (t *tr) cond(e ast.Expr) string {
	if a, ok := t.atom(e); ok {
		return a
	}
	switch x := e.(type) {
	case *ast.ParenExpr:
		return "(" + t.cond(x.X) + ")"
	case *ast.UnaryExpr:
		if x.Op == token.NOT {
			return "¬ (" + t.cond(x.X) + ")"
		}
	case *ast.BinaryExpr:
		switch x.Op {
		case token.LAND:
			return "(" + t.cond(x.X) + ") ∧ (" + t.cond(x.Y) + ")"
		case token.LOR:
			return "(" + t.cond(x.X) + ") ∨ (" + t.cond(x.Y) + ")"
		case token.LSS, token.GTR, token.LEQ, token.GEQ, token.EQL, token.NEQ:
			op := map[token.Token]string{token.LSS: "<", token.GTR: ">", token.LEQ: "≤", token.GEQ: "≥", token.EQL: "=", token.NEQ: "≠"}[x.Op]
			return par(t.expr(x.X)) + " " + op + " " + par(t.expr(x.Y))
		}
	}
	t.fail(e, "unsupported condition")
	return ""
}

func returns(b *ast.BlockStmt) bool {
	if len(b.List) == 0 {
		return false
	}
	switch x := b.List[len(b.List)-1].(type) {
	case *ast.ReturnStmt:
		return true
	case *ast.IfStmt:
		if x.Else == nil {
			return false
		}
		eb, ok := x.Else.(*ast.BlockStmt)
		return ok && returns(x.Body) && returns(eb)
	}
	return false
}

func assigned(b *ast.BlockStmt) []string {
	var out []string
	ast.Inspect(b, func(n ast.Node) bool {
		switch x := n.(type) {
		case *ast.AssignStmt:
			if x.Tok != token.DEFINE {
				for _, l := range x.Lhs {
					if id, ok := l.(*ast.Ident); ok && !contains(out, id.Name) {
						out = append(out, id.Name)
					}
				}
			}
		case *ast.IncDecStmt:
			if id, ok := x.X.(*ast.Ident); ok && !contains(out, id.Name) {
				out = append(out, id.Name)
			}
		}
		return true
	})
	return out
}

func contains(l []string, s string) bool {
	for _, x := range l {
		if x == s {
			return true
		}
	}
	return false
}
