// Package xt: the translator's front end. It parses Go source of /repo (go/parser only, nothing
// is executed) and offers fail-closed extraction of constants, tables and a small statement
// subset of integer functions into Lean definitions.
package xt

import (
	"fmt"
	"go/ast"
	"go/parser"
	"go/token"
	"math/big"
	"os"
	"path/filepath"
	"sort"
	"strconv"
	"strings"
)

type Pkg struct {
	Dir   string
	Fset  *token.FileSet
	Files []*ast.File
	Names []string
}

// Load parses all non-test .go files of a directory (build-tag-guarded verif files excluded).
func Load(dir string) *Pkg {
	p := &Pkg{Dir: dir, Fset: token.NewFileSet()}
	ents, err := os.ReadDir(dir)
	if err != nil {
		Fail("read %s: %v", dir, err)
	}
	for _, e := range ents {
		n := e.Name()
		if !strings.HasSuffix(n, ".go") || strings.HasSuffix(n, "_test.go") || strings.HasSuffix(n, "_verif.go") {
			continue
		}
		f, err := parser.ParseFile(p.Fset, filepath.Join(dir, n), nil, parser.ParseComments)
		if err != nil {
			Fail("parse %s: %v", n, err)
		}
		p.Files = append(p.Files, f)
		p.Names = append(p.Names, n)
	}
	return p
}

func Fail(f string, a ...any) {
	fmt.Fprintf(os.Stderr, "extract: "+f+"\n", a...)
	os.Exit(3)
}

// valueSpec finds the value expression bound to a package-level const/var name.
func (p *Pkg) valueSpec(name string) (ast.Expr, *ast.GenDecl, int) {
	for _, f := range p.Files {
		for _, d := range f.Decls {
			gd, ok := d.(*ast.GenDecl)
			if !ok || (gd.Tok != token.CONST && gd.Tok != token.VAR) {
				continue
			}
			for si, s := range gd.Specs {
				vs := s.(*ast.ValueSpec)
				for i, n := range vs.Names {
					if n.Name == name {
						if i < len(vs.Values) {
							return vs.Values[i], gd, si
						}
						return nil, gd, si
					}
				}
			}
		}
	}
	return nil, nil, 0
}

// Has reports whether a package-level const/var exists.
func (p *Pkg) Has(name string) bool {
	_, gd, _ := p.valueSpec(name)
	return gd != nil
}

// Expr returns the initialiser expression of a package-level const/var.
func (p *Pkg) Expr(name string) ast.Expr {
	e, gd, _ := p.valueSpec(name)
	if gd == nil || e == nil {
		Fail("%s: no package-level value %q", p.Dir, name)
	}
	return e
}

// Int evaluates an integer constant expression (literals, other constants, + - * / << unary -, conversions).
func (p *Pkg) Int(name string) *big.Int {
	return p.EvalInt(p.Expr(name))
}

func (p *Pkg) EvalInt(e ast.Expr) *big.Int {
	switch x := e.(type) {
	case *ast.BasicLit:
		if x.Kind == token.INT {
			v, ok := new(big.Int).SetString(strings.ReplaceAll(x.Value, "_", ""), 0)
			if !ok {
				Fail("bad int literal %s", x.Value)
			}
			return v
		}
		if x.Kind == token.CHAR {
			r, _, _, err := strconv.UnquoteChar(x.Value[1:len(x.Value)-1], '\'')
			if err != nil {
				Fail("bad char %s", x.Value)
			}
			return big.NewInt(int64(r))
		}
	case *ast.ParenExpr:
		return p.EvalInt(x.X)
	case *ast.Ident:
		return p.Int(x.Name)
	case *ast.UnaryExpr:
		v := p.EvalInt(x.X)
		switch x.Op {
		case token.SUB:
			return new(big.Int).Neg(v)
		case token.ADD:
			return v
		}
	case *ast.BinaryExpr:
		a, b := p.EvalInt(x.X), p.EvalInt(x.Y)
		switch x.Op {
		case token.ADD:
			return new(big.Int).Add(a, b)
		case token.SUB:
			return new(big.Int).Sub(a, b)
		case token.MUL:
			return new(big.Int).Mul(a, b)
		case token.QUO:
			return new(big.Int).Quo(a, b)
		case token.SHL:
			return new(big.Int).Lsh(a, uint(b.Uint64()))
		}
	case *ast.CallExpr: // conversion like uint64(32), int64(x)
		if len(x.Args) == 1 {
			if id, ok := x.Fun.(*ast.Ident); ok {
				switch id.Name {
				case "int", "int8", "int16", "int32", "int64", "uint", "uint8", "uint16", "uint32", "uint64", "byte":
					return p.EvalInt(x.Args[0])
				}
			}
		}
	}
	Fail("%s: unsupported integer expression %s", p.Dir, p.Src(e))
	return nil
}

// Str evaluates a string constant (literal, other constant, or concatenation).
func (p *Pkg) Str(name string) string { return p.EvalStr(p.Expr(name)) }

func (p *Pkg) EvalStr(e ast.Expr) string {
	switch x := e.(type) {
	case *ast.BasicLit:
		if x.Kind == token.STRING {
			s, err := strconv.Unquote(x.Value)
			if err != nil {
				Fail("bad string %s", x.Value)
			}
			return s
		}
	case *ast.Ident:
		return p.Str(x.Name)
	case *ast.ParenExpr:
		return p.EvalStr(x.X)
	case *ast.BinaryExpr:
		if x.Op == token.ADD {
			return p.EvalStr(x.X) + p.EvalStr(x.Y)
		}
	}
	Fail("%s: unsupported string expression %s", p.Dir, p.Src(e))
	return ""
}

// Src renders an AST node back to source text.
func (p *Pkg) Src(n ast.Node) string {
	pos, end := p.Fset.Position(n.Pos()), p.Fset.Position(n.End())
	b, err := os.ReadFile(pos.Filename)
	if err != nil {
		return "?"
	}
	return string(b[pos.Offset:end.Offset])
}

// Func finds a function (recv == "") or method (recv = receiver type name, pointer ignored).
func (p *Pkg) Func(recv, name string) *ast.FuncDecl {
	for _, f := range p.Files {
		for _, d := range f.Decls {
			fd, ok := d.(*ast.FuncDecl)
			if !ok || fd.Name.Name != name {
				continue
			}
			r := ""
			if fd.Recv != nil && len(fd.Recv.List) == 1 {
				t := fd.Recv.List[0].Type
				if st, ok := t.(*ast.StarExpr); ok {
					t = st.X
				}
				if id, ok := t.(*ast.Ident); ok {
					r = id.Name
				}
			}
			if r == recv {
				return fd
			}
		}
	}
	Fail("%s: no function %s.%s", p.Dir, recv, name)
	return nil
}

// AllNames lists package-level const/var names matching a prefix, in source order.
func (p *Pkg) AllNames(prefix string) []string {
	var out []string
	for _, f := range p.Files {
		for _, d := range f.Decls {
			gd, ok := d.(*ast.GenDecl)
			if !ok || (gd.Tok != token.CONST && gd.Tok != token.VAR) {
				continue
			}
			for _, s := range gd.Specs {
				for _, n := range s.(*ast.ValueSpec).Names {
					if strings.HasPrefix(n.Name, prefix) {
						out = append(out, n.Name)
					}
				}
			}
		}
	}
	return out
}

// ---------- Lean output ----------

type LeanFile struct {
	Path string
	b    strings.Builder
}

func NewLean(path, header string) *LeanFile {
	l := &LeanFile{Path: path}
	l.b.WriteString("/- GENERATED by /verif/harness/cmd/extract from the current /repo source. DO NOT EDIT.\n   " + header + " -/\nset_option linter.unusedVariables false\n")
	return l
}

func (l *LeanFile) P(f string, a ...any) { fmt.Fprintf(&l.b, f+"\n", a...) }

// Write writes the file only if the content changed (keeps lake's traces warm). Returns true if changed.
func (l *LeanFile) Write() bool {
	s := l.b.String()
	// imports must precede everything else: hoist them
	var imps, rest []string
	for _, ln := range strings.Split(s, "\n") {
		if strings.HasPrefix(ln, "import ") {
			imps = append(imps, ln)
		} else {
			rest = append(rest, ln)
		}
	}
	s = strings.Join(append(imps, rest...), "\n")
	old, err := os.ReadFile(l.Path)
	if err == nil && string(old) == s {
		return false
	}
	os.MkdirAll(filepath.Dir(l.Path), 0o755)
	if err := os.WriteFile(l.Path, []byte(s), 0o644); err != nil {
		Fail("write %s: %v", l.Path, err)
	}
	return true
}

// LeanStr renders a Go string as a Lean string literal (ASCII printable kept, the rest escaped).
func LeanStr(s string) string {
	var b strings.Builder
	b.WriteByte('"')
	for _, c := range []byte(s) {
		switch {
		case c == '"':
			b.WriteString("\\\"")
		case c == '\\':
			b.WriteString("\\\\")
		case c == '\n':
			b.WriteString("\\n")
		case c >= 32 && c < 127:
			b.WriteByte(c)
		default:
			fmt.Fprintf(&b, "\\x%02x", c)
		}
	}
	b.WriteByte('"')
	return b.String()
}

func SortedKeys[V any](m map[string]V) []string {
	ks := make([]string, 0, len(m))
	for k := range m {
		ks = append(ks, k)
	}
	sort.Strings(ks)
	return ks
}

// Norm renders a node as source text without comments and without any whitespace, so that
// pattern recognition is insensitive to formatting and comments.
func (p *Pkg) Norm(n ast.Node) string {
	src := p.Src(n)
	var b strings.Builder
	inStr := byte(0)
	for i := 0; i < len(src); i++ {
		c := src[i]
		if inStr != 0 {
			b.WriteByte(c)
			if c == '\\' && inStr != '`' && i+1 < len(src) {
				i++
				b.WriteByte(src[i])
			} else if c == inStr {
				inStr = 0
			}
			continue
		}
		if c == '"' || c == '`' || c == '\'' {
			inStr = c
			b.WriteByte(c)
			continue
		}
		if c == '/' && i+1 < len(src) && src[i+1] == '/' {
			for i < len(src) && src[i] != '\n' {
				i++
			}
			continue
		}
		if c == '/' && i+1 < len(src) && src[i+1] == '*' {
			i += 2
			for i+1 < len(src) && !(src[i] == '*' && src[i+1] == '/') {
				i++
			}
			i++
			continue
		}
		if c == ' ' || c == '\t' || c == '\n' || c == '\r' {
			continue
		}
		b.WriteByte(c)
	}
	return b.String()
}
