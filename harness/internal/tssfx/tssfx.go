// Package tssfx: builds REAL tss groups on the in-process app by running the repository's own DKG
// (x/tss/testutil.GroupContext drives pkg/tss round 1/2/3 through the tss msg server), optionally
// makes the group the current bandtss group, and produces real partial signatures.
package tssfx

import (
	"encoding/hex"
	"fmt"

	sdk "github.com/cosmos/cosmos-sdk/types"

	"github.com/bandprotocol/chain/v3/pkg/tss"
	bandtsstypes "github.com/bandprotocol/chain/v3/x/bandtss/types"
	tsskeeper "github.com/bandprotocol/chain/v3/x/tss/keeper"
	tsstestutil "github.com/bandprotocol/chain/v3/x/tss/testutil"
	tsstypes "github.com/bandprotocol/chain/v3/x/tss/types"

	"verifharness/internal/fx"
)

type Group struct {
	*tsstestutil.GroupContext
	N, T uint64
	// DEs submitted by each member (index = member id - 1), by hex(PubD)
	Nonces []map[string]tsstestutil.DEWithPrivateNonce
}

// NewGroup runs the full DKG for an n-of-t group owned by `owner` ("bandtss" makes the bandtss
// callbacks fire). The group is ACTIVE on return.
func NewGroup(app *fx.App, ctx sdk.Context, n, t uint64, owner string) (*Group, error) {
	k := app.TSSKeeper
	gc, err := tsstestutil.NewGroupContext(ctx, k, n, t)
	if err != nil {
		return nil, err
	}
	g := k.MustGetGroup(ctx, gc.GroupID)
	g.ModuleOwner = owner
	k.SetGroup(ctx, g)
	if err := gc.SubmitRound1(ctx, k); err != nil {
		return nil, fmt.Errorf("round1: %w", err)
	}
	if err := gc.SubmitRound2(ctx, k); err != nil {
		return nil, fmt.Errorf("round2: %w", err)
	}
	if err := gc.SubmitRound3(ctx, k); err != nil {
		return nil, fmt.Errorf("round3: %w", err)
	}
	// HandleProcessGroup was called directly by the helpers: drop the ids they left pending
	k.SetPendingProcessGroups(ctx, tsstypes.PendingProcessGroups{})
	grp := &Group{GroupContext: gc, N: n, T: t}
	for i := uint64(0); i < n; i++ {
		grp.Nonces = append(grp.Nonces, map[string]tsstestutil.DEWithPrivateNonce{})
	}
	return grp, nil
}

// MakeCurrent registers the group as the current bandtss group with all members active.
func (g *Group) MakeCurrent(app *fx.App, ctx sdk.Context) {
	app.BandtssKeeper.SetCurrentGroup(ctx, bandtsstypes.NewCurrentGroup(g.GroupID, ctx.BlockTime()))
	fx.Must(app.BandtssKeeper.AddMembers(ctx, g.GroupID))
}

// NewDEs creates k fresh DE pairs for member id (1-based) and remembers their private nonces.
func (g *Group) NewDEs(id int, k int) []tsstypes.DE {
	var out []tsstypes.DE
	for j := 0; j < k; j++ {
		de := tsstestutil.GenerateDE(g.Secrets[id-1])
		g.Nonces[id-1][hex.EncodeToString(de.PubDE.PubD)] = de
		out = append(out, de.PubDE)
	}
	return out
}

// Sign produces member id's real partial signature for the signing's CURRENT attempt.
func (g *Group) Sign(ctx sdk.Context, k *tsskeeper.Keeper, sid tss.SigningID, id tss.MemberID) (tss.Signature, error) {
	signing, err := k.GetSigning(ctx, sid)
	if err != nil {
		return nil, err
	}
	sa, err := k.GetSigningAttempt(ctx, sid, signing.CurrentAttempt)
	if err != nil {
		return nil, err
	}
	ams := tsstypes.AssignedMembers(sa.AssignedMembers)
	for _, am := range ams {
		if am.MemberID == id {
			de, ok := g.Nonces[id-1][hex.EncodeToString(am.PubD)]
			if !ok {
				return nil, fmt.Errorf("unknown DE")
			}
			return tsstestutil.GenerateSignature(signing, ams, id, de, g.OwnPrivKeys[id-1])
		}
	}
	return nil, fmt.Errorf("member %d not assigned", id)
}

// Addr of member id (1-based).
func (g *Group) Addr(id int) sdk.AccAddress { return g.Accounts[id-1].Address }
