package tssfx

import (
	"fmt"
	"math/rand"

	sdk "github.com/cosmos/cosmos-sdk/types"

	"github.com/bandprotocol/chain/v3/pkg/tss"
	bandtesting "github.com/bandprotocol/chain/v3/testing"
	tsskeeper "github.com/bandprotocol/chain/v3/x/tss/keeper"
	tsstestutil "github.com/bandprotocol/chain/v3/x/tss/testutil"
	tsstypes "github.com/bandprotocol/chain/v3/x/tss/types"

	"verifharness/internal/fx"
)

// DKG drives the members of an EXISTING group in key generation by sending the round messages only;
// the group advances when the real tss EndBlocker processes it.
type DKG struct {
	GroupID  tss.GroupID
	Accounts []bandtesting.Account
	R1       []tss.Round1Info
	Enc      []tss.EncSecretShares
	Priv     []tss.Scalar
	Round    int // rounds whose messages have been sent
	// Peers receive exactly the same messages as the primary keeper (twin replicas)
	Peers []Peer
	// CheatFrom/CheatTo (member ids, 0 = nobody): CheatFrom deals a corrupted share to CheatTo, who complains in round 3
	// instead of confirming; the complaint succeeds, CheatFrom is marked malicious and the key generation FAILS
	CheatFrom, CheatTo tss.MemberID
}

// Peer is another replica's keeper and context.
type Peer struct {
	Ctx sdk.Context
	K   *tsskeeper.Keeper
}

// NewAccounts makes n fresh accounts from a seed (no collision with bandtesting's accounts).
func NewAccounts(seed int64, n int) []bandtesting.Account {
	r := rand.New(rand.NewSource(seed ^ 0x5eed5eed))
	out := make([]bandtesting.Account, n)
	for i := range out {
		out[i] = bandtesting.CreateArbitraryAccount(r)
	}
	return out
}

// Send sends the messages of the next round (1, 2, 3 = confirm) for every member; returns the first error.
func (d *DKG) Send(ctx sdk.Context, k *tsskeeper.Keeper) error {
	ms0 := tsskeeper.NewMsgServerImpl(k)
	ms := &bcast{primary: ms0, ctx: ctx}
	for _, p := range d.Peers {
		ms.peers = append(ms.peers, tsskeeper.NewMsgServerImpl(p.K))
		ms.pctx = append(ms.pctx, p.Ctx)
	}
	group, err := k.GetGroup(ctx, d.GroupID)
	if err != nil {
		return err
	}
	dkgContext, err := k.GetDKGContext(ctx, d.GroupID)
	if err != nil {
		return err
	}
	n := int(group.Size_)
	switch d.Round {
	case 0:
		d.R1 = make([]tss.Round1Info, n)
		for i := 0; i < n; i++ {
			mid := tss.MemberID(i + 1)
			r1, err := tss.GenerateRound1Info(mid, group.Threshold, dkgContext)
			if err != nil {
				return err
			}
			d.R1[i] = *r1
			info := tsstypes.NewRound1Info(mid, r1.CoefficientCommits, r1.OneTimePubKey, r1.A0Signature, r1.OneTimeSignature)
			if _, err := ms.SubmitDKGRound1(ctx, tsstypes.NewMsgSubmitDKGRound1(d.GroupID, info, d.Accounts[i].Address.String())); err != nil {
				return err
			}
		}
	case 1:
		pubs := make(tss.Points, n)
		for i := 0; i < n; i++ {
			pubs[i] = d.R1[i].OneTimePubKey
		}
		d.Enc = make([]tss.EncSecretShares, n)
		for i := 0; i < n; i++ {
			mid := tss.MemberID(i + 1)
			enc, err := tss.ComputeEncryptedSecretShares(mid, d.R1[i].OneTimePrivKey, pubs, d.R1[i].Coefficients, tss.DefaultNonce16Generator{})
			if err != nil {
				return err
			}
			if d.CheatFrom == mid && d.CheatTo != 0 && d.CheatTo != mid {
				slot := tsstypes.FindMemberSlot(d.CheatFrom, d.CheatTo)
				bad := append(tss.EncSecretShare{}, enc[slot]...)
				bad[0] ^= 0x5a
				enc[slot] = bad
			}
			d.Enc[i] = enc
			if _, err := ms.SubmitDKGRound2(ctx, tsstypes.NewMsgSubmitDKGRound2(d.GroupID, tsstypes.NewRound2Info(mid, enc), d.Accounts[i].Address.String())); err != nil {
				return err
			}
		}
	case 2:
		d.Priv = make([]tss.Scalar, n)
		for i := 0; i < n; i++ {
			mid := tss.MemberID(i + 1)
			if d.CheatFrom != 0 && mid == d.CheatTo && d.CheatFrom != mid {
				// the victim proves the share it received does not match the dealer's commitments
				sig, keySym, err := tss.SignComplaint(d.R1[i].OneTimePubKey, d.R1[d.CheatFrom-1].OneTimePubKey, d.R1[i].OneTimePrivKey)
				if err != nil {
					return err
				}
				cp := tsstypes.Complaint{Complainant: mid, Respondent: d.CheatFrom, KeySym: keySym, Signature: sig}
				if _, err := ms.Complain(ctx, tsstypes.NewMsgComplain(d.GroupID, []tsstypes.Complaint{cp}, d.Accounts[i].Address.String())); err != nil {
					return err
				}
				d.Priv[i] = nil
				continue
			}
			shares, err := secretShares(d.R1, d.Enc, mid)
			if err != nil {
				return err
			}
			priv, err := tss.ComputeOwnPrivateKey(shares...)
			if err != nil {
				return err
			}
			sig, err := tss.SignOwnPubKey(mid, dkgContext, priv.Point(), priv)
			if err != nil {
				return err
			}
			d.Priv[i] = priv
			if _, err := ms.Confirm(ctx, tsstypes.NewMsgConfirm(d.GroupID, mid, sig, d.Accounts[i].Address.String())); err != nil {
				if d.CheatFrom != 0 {
					continue // (a member already marked malicious is refused; the round still closes)
				}
				return err
			}
		}
	default:
		return fmt.Errorf("dkg finished")
	}
	d.Round++
	return nil
}

func secretShares(r1 []tss.Round1Info, enc []tss.EncSecretShares, mid tss.MemberID) (tss.Scalars, error) {
	n := len(r1)
	out := make(tss.Scalars, n)
	for i := 0; i < n; i++ {
		if i == int(mid)-1 {
			s, err := tss.ComputeSecretShare(r1[i].Coefficients, mid)
			if err != nil {
				return nil, err
			}
			out[i] = s
			continue
		}
		keySym, err := tss.ComputeSecretSym(r1[mid-1].OneTimePrivKey, r1[i].OneTimePubKey)
		if err != nil {
			return nil, err
		}
		shifted := 0
		if int(mid)-1 > i {
			shifted = 1
		}
		s, err := tss.DecryptSecretShare(enc[i][int(mid)-1-shifted], keySym)
		if err != nil {
			return nil, err
		}
		out[i] = s
	}
	return out, nil
}

// AsGroup wraps a finished DKG as a Group able to submit DEs and sign.
func (d *DKG) AsGroup(ctx sdk.Context, k *tsskeeper.Keeper) *Group {
	g, err := k.GetGroup(ctx, d.GroupID)
	fx.Must(err)
	secrets := make([]tss.Scalar, len(d.Accounts))
	for i := range secrets {
		s, err := tss.RandomScalar()
		fx.Must(err)
		secrets[i] = s
	}
	gc := &tsstestutil.GroupContext{GroupID: d.GroupID, Accounts: d.Accounts, OwnPrivKeys: d.Priv, Secrets: secrets}
	grp := &Group{GroupContext: gc, N: g.Size_, T: g.Threshold}
	for range d.Accounts {
		grp.Nonces = append(grp.Nonces, map[string]tsstestutil.DEWithPrivateNonce{})
	}
	return grp
}

// NewGroupWith runs the full DKG for the given accounts (all three rounds, processing the group after
// each round exactly as the tss end-blocker would) and returns the ACTIVE group.
func NewGroupWith(app *fx.App, ctx sdk.Context, accounts []bandtesting.Account, t uint64, owner string) (*Group, error) {
	k := app.TSSKeeper
	var members []sdk.AccAddress
	for _, a := range accounts {
		members = append(members, a.Address)
	}
	gid, err := k.CreateGroup(ctx, members, t, owner)
	if err != nil {
		return nil, err
	}
	d := &DKG{GroupID: gid, Accounts: accounts}
	for round := 0; round < 3; round++ {
		if err := d.Send(ctx, k); err != nil {
			return nil, fmt.Errorf("round %d: %w", round+1, err)
		}
		k.HandleProcessGroup(ctx, gid)
	}
	k.SetPendingProcessGroups(ctx, tsstypes.PendingProcessGroups{})
	g, err := k.GetGroup(ctx, gid)
	if err != nil || g.Status != tsstypes.GROUP_STATUS_ACTIVE {
		return nil, fmt.Errorf("group not active: %v %v", g.Status, err)
	}
	return d.AsGroup(ctx, k), nil
}


// bcast sends every DKG message to the primary replica and then, unchanged, to the peers.
type bcast struct {
	primary tsstypes.MsgServer
	ctx     sdk.Context
	peers   []tsstypes.MsgServer
	pctx    []sdk.Context
}

func (b *bcast) SubmitDKGRound1(ctx sdk.Context, m *tsstypes.MsgSubmitDKGRound1) (*tsstypes.MsgSubmitDKGRound1Response, error) {
	r, err := b.primary.SubmitDKGRound1(ctx, m)
	for i, p := range b.peers {
		if _, e := p.SubmitDKGRound1(b.pctx[i], m); (e == nil) != (err == nil) {
			return r, fmt.Errorf("replicas disagree on round1: %v vs %v", err, e)
		}
	}
	return r, err
}

func (b *bcast) SubmitDKGRound2(ctx sdk.Context, m *tsstypes.MsgSubmitDKGRound2) (*tsstypes.MsgSubmitDKGRound2Response, error) {
	r, err := b.primary.SubmitDKGRound2(ctx, m)
	for i, p := range b.peers {
		if _, e := p.SubmitDKGRound2(b.pctx[i], m); (e == nil) != (err == nil) {
			return r, fmt.Errorf("replicas disagree on round2: %v vs %v", err, e)
		}
	}
	return r, err
}

func (b *bcast) Confirm(ctx sdk.Context, m *tsstypes.MsgConfirm) (*tsstypes.MsgConfirmResponse, error) {
	r, err := b.primary.Confirm(ctx, m)
	for i, p := range b.peers {
		if _, e := p.Confirm(b.pctx[i], m); (e == nil) != (err == nil) {
			return r, fmt.Errorf("replicas disagree on confirm: %v vs %v", err, e)
		}
	}
	return r, err
}

func (b *bcast) Complain(ctx sdk.Context, m *tsstypes.MsgComplain) (*tsstypes.MsgComplainResponse, error) {
	r, err := b.primary.Complain(ctx, m)
	for i, p := range b.peers {
		if _, e := p.Complain(b.pctx[i], m); (e == nil) != (err == nil) {
			return r, fmt.Errorf("replicas disagree on complain: %v vs %v", err, e)
		}
	}
	return r, err
}

// NewGroupTwin runs ONE key generation and feeds its messages to two replicas, so that both end up with the same
// ACTIVE group (same public key, same members).
func NewGroupTwin(appA *fx.App, ctxA sdk.Context, appB *fx.App, ctxB sdk.Context, accounts []bandtesting.Account, t uint64, owner string) (*Group, error) {
	var members []sdk.AccAddress
	for _, a := range accounts {
		members = append(members, a.Address)
	}
	gid, err := appA.TSSKeeper.CreateGroup(ctxA, members, t, owner)
	if err != nil {
		return nil, err
	}
	gidB, err := appB.TSSKeeper.CreateGroup(ctxB, members, t, owner)
	if err != nil || gidB != gid {
		return nil, fmt.Errorf("replica B group: %v %v", gidB, err)
	}
	d := &DKG{GroupID: gid, Accounts: accounts, Peers: []Peer{{Ctx: ctxB, K: appB.TSSKeeper}}}
	for round := 0; round < 3; round++ {
		if err := d.Send(ctxA, appA.TSSKeeper); err != nil {
			return nil, fmt.Errorf("round %d: %w", round+1, err)
		}
		appA.TSSKeeper.HandleProcessGroup(ctxA, gid)
		appB.TSSKeeper.HandleProcessGroup(ctxB, gid)
	}
	appA.TSSKeeper.SetPendingProcessGroups(ctxA, tsstypes.PendingProcessGroups{})
	appB.TSSKeeper.SetPendingProcessGroups(ctxB, tsstypes.PendingProcessGroups{})
	g, err := appA.TSSKeeper.GetGroup(ctxA, gid)
	if err != nil || g.Status != tsstypes.GROUP_STATUS_ACTIVE {
		return nil, fmt.Errorf("group not active: %v %v", g.Status, err)
	}
	return d.AsGroup(ctxA, appA.TSSKeeper), nil
}
