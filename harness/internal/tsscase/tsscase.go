// Package tsscase: one generated case of the tss/bandtss signing harness (used by cmd/tss and cmd/c13).
// tss: correspondence harness for C05 / C10 / C13(signing part): real tss + bandtss msg servers and
// end-blockers over a REAL group built by the repository's DKG; real partial signatures.
package tsscase

import (
	"bytes"
	"encoding/hex"
	"encoding/json"
	"sort"
	"time"

	sdkmath "cosmossdk.io/math"
	storetypes "cosmossdk.io/store/types"

	sdk "github.com/cosmos/cosmos-sdk/types"
	authtypes "github.com/cosmos/cosmos-sdk/x/auth/types"
	govtypes "github.com/cosmos/cosmos-sdk/x/gov/types"

	"github.com/bandprotocol/chain/v3/pkg/tss"
	bandtesting "github.com/bandprotocol/chain/v3/testing"
	"github.com/bandprotocol/chain/v3/x/bandtss"
	bandtsskeeper "github.com/bandprotocol/chain/v3/x/bandtss/keeper"
	bandtsstypes "github.com/bandprotocol/chain/v3/x/bandtss/types"
	oracletypes "github.com/bandprotocol/chain/v3/x/oracle/types"
	tssmod "github.com/bandprotocol/chain/v3/x/tss"
	tsskeeper "github.com/bandprotocol/chain/v3/x/tss/keeper"
	tsstypes "github.com/bandprotocol/chain/v3/x/tss/types"

	"verifharness/internal/fx"
	"verifharness/internal/tssfx"
)

var denoms = []string{"uband", "ufee"}

type caseT struct {
	quietUntil int64 // no signature is submitted up to this height
	forceID    int   // when non-zero, the member the next nonce operations are about
	app        *fx.App
	ctx        sdk.Context
	tr         *fx.Trace
	r          *fx.Rng
	g          *tssfx.Group
	tms        tsstypes.MsgServer
	bms        bandtsstypes.MsgServer
	reqs       []bandtesting.Account
	tokens     map[string]int // hex(PubD) -> token
	next       int
	height     int64
	now        int64
	fee        []int64
	faults     bool   // inject malformed nonce pairs in about a third of the cases
	orid       uint64 // oracle request ids used by oracleSigning
}

func coinsOf(amt []int64) sdk.Coins {
	c := sdk.NewCoins()
	for i, a := range amt {
		if a > 0 {
			c = c.Add(sdk.NewInt64Coin(denoms[i], a))
		}
	}
	return c
}

func amounts(c sdk.Coins) []any {
	out := []any{}
	for _, d := range denoms {
		out = append(out, json.Number(c.AmountOf(d).String()))
	}
	return out
}

func (c *caseT) setClock() {
	c.ctx = c.ctx.WithBlockHeight(c.height).WithBlockTime(time.Unix(0, c.now).UTC())
}

func (c *caseT) dump() fx.M {
	tk, bk := c.app.TSSKeeper, c.app.BandtssKeeper
	var members []fx.M
	for id := 1; id <= int(c.g.N); id++ {
		addr := c.g.Addr(id)
		q := tk.GetDEQueue(c.ctx, addr)
		toks := []int{}
		for i := q.Head; i < q.Tail; i++ {
			de, err := tk.GetDE(c.ctx, addr, i)
			if err != nil {
				toks = append(toks, -1)
				continue
			}
			toks = append(toks, c.tokens[hex.EncodeToString(de.PubD)])
		}
		tm, _ := tk.GetMember(c.ctx, c.g.GroupID, tss.MemberID(id))
		bm, err := bk.GetMember(c.ctx, addr, c.g.GroupID)
		members = append(members, fx.M{"q": toks, "tssActive": tm.IsActive, "bActive": err == nil && bm.IsActive,
			"bal": amounts(c.app.BankKeeper.GetAllBalances(c.ctx, addr))})
	}
	n := tk.GetSigningCount(c.ctx)
	sigs := []any{}
	for sid := uint64(1); sid <= n; sid++ {
		sg, err := tk.GetSigning(c.ctx, tss.SigningID(sid))
		if err != nil {
			sigs = append(sigs, nil)
			continue
		}
		atts := []any{}
		for a := uint64(1); a <= sg.CurrentAttempt; a++ {
			sa, err := tk.GetSigningAttempt(c.ctx, sg.ID, a)
			if err != nil {
				atts = append(atts, nil)
				continue
			}
			assigned := [][]int{}
			for _, am := range sa.AssignedMembers {
				assigned = append(assigned, []int{int(am.MemberID), c.tokens[hex.EncodeToString(am.PubD)]})
			}
			parts := []int{}
			for _, ps := range tk.GetPartialSignaturesWithKey(c.ctx, sg.ID, a) {
				parts = append(parts, int(ps.MemberID))
			}
			sort.Ints(parts)
			atts = append(atts, fx.M{"exp": sa.ExpiredHeight, "assigned": assigned, "partials": parts})
		}
		sigs = append(sigs, fx.M{"status": int(sg.Status), "attempt": sg.CurrentAttempt, "attempts": atts,
			"mapping": uint64(bk.GetSigningIDMapping(c.ctx, sg.ID))})
	}
	exps := [][]uint64{}
	for _, e := range tk.GetSigningExpirations(c.ctx) {
		exps = append(exps, []uint64{uint64(e.SigningID), e.SigningAttempt})
	}
	pend := []uint64{}
	for _, p := range tk.GetPendingProcessSignings(c.ctx) {
		pend = append(pend, uint64(p))
	}
	req := []any{}
	for _, a := range c.reqs {
		req = append(req, amounts(c.app.BankKeeper.GetAllBalances(c.ctx, a.Address)))
	}
	return fx.M{"members": members, "signings": sigs, "expirations": exps, "pending": pend,
		"escrow": amounts(c.app.BankKeeper.GetAllBalances(c.ctx, c.app.AccountKeeper.GetModuleAddress(bandtsstypes.ModuleName))), "req": req}
}

// keysChanged lists the members whose registered public key is no longer the one key generation gave them (the key
// every partial signature of the member is verified against)
func (c *caseT) keysChanged() []int {
	out := []int{}
	for id := 1; id <= int(c.g.N); id++ {
		tm, err := c.app.TSSKeeper.GetMember(c.ctx, c.g.GroupID, tss.MemberID(id))
		if err != nil || !bytes.Equal(tm.PubKey, c.g.OwnPrivKeys[id-1].Point()) {
			out = append(out, id)
		}
	}
	return out
}

func (c *caseT) emit(m fx.M, errS string) {
	out := c.dump()
	out["err"] = errS
	m["out"] = out
	m["obs"] = fx.M{"keysChanged": c.keysChanged()}
	c.tr.Op(m)
}

func (c *caseT) pickID() int {
	id := c.r.Range(1, int(c.g.N))
	if c.forceID != 0 {
		id = c.forceID
	}
	return id
}

func (c *caseT) submitDE() {
	id := c.pickID()
	k := c.r.PickInt(1, 1, 2, 3, 5)
	des := c.g.NewDEs(id, k)
	msg := &tsstypes.MsgSubmitDEs{DEs: des, Sender: c.g.Addr(id).String()}
	e := fx.Atomically(c.ctx, func(ctx sdk.Context) error { _, err := c.tms.SubmitDEs(ctx, msg); return err })
	if e == "" {
		for _, d := range des {
			c.tokens[hex.EncodeToString(d.PubD)] = c.next
			c.next++
		}
	}
	c.emit(fx.M{"op": "submitDE", "member": id, "k": k}, e)
}

// badDE puts a malformed nonce pair at the tail of a member's queue through the keeper API (MsgSubmitDEs
// validates the points, so this is fault injection: a signing creation that fails after the dequeue).
func (c *caseT) badDE() {
	id := c.pickID()
	bad := make([]byte, 33)
	bad[0] = 0x05
	bad[31] = byte(c.next >> 8)
	bad[32] = byte(c.next)
	de := tsstypes.DE{PubD: bad, PubE: bad}
	e := fx.Atomically(c.ctx, func(ctx sdk.Context) error { return c.app.TSSKeeper.EnqueueDEs(ctx, c.g.Addr(id), []tsstypes.DE{de}) })
	if e == "" {
		c.tokens[hex.EncodeToString(bad)] = c.next
		c.next++
		c.tr.Tag("fault-bad-de")
	}
	c.emit(fx.M{"op": "badDE", "member": id}, e)
}

func (c *caseT) resetDE() {
	id := c.pickID()
	msg := &tsstypes.MsgResetDE{Sender: c.g.Addr(id).String()}
	e := fx.Atomically(c.ctx, func(ctx sdk.Context) error { _, err := c.tms.ResetDE(ctx, msg); return err })
	c.emit(fx.M{"op": "resetDE", "member": id}, e)
}

func (c *caseT) request() {
	r := c.r
	sender := r.Intn(len(c.reqs))
	authority := r.Chance(1, 8)
	cost := make([]int64, len(denoms))
	for i := range denoms {
		cost[i] = c.fee[i] * int64(c.g.T)
	}
	limit := make([]int64, len(denoms))
	for i := range denoms {
		switch r.Intn(5) {
		case 0:
			limit[i] = cost[i]
		case 1:
			limit[i] = cost[i] - 1
		case 2:
			limit[i] = cost[i] + 1
		default:
			limit[i] = cost[i] + int64(r.Range(0, 50))
		}
		if limit[i] < 0 {
			limit[i] = 0
		}
	}
	content := tsstypes.NewTextSignatureOrder([]byte{byte(r.Intn(256)), byte(r.Intn(256))})
	var e string
	if authority {
		auth := authtypes.NewModuleAddress(govtypes.ModuleName)
		e = fx.Atomically(c.ctx, func(ctx sdk.Context) error {
			_, err := c.app.BandtssKeeper.CreateDirectSigningRequest(ctx, content, "", auth, coinsOf(limit))
			return err
		})
	} else {
		msg, err := bandtsstypes.NewMsgRequestSignature(content, coinsOf(limit), c.reqs[sender].Address.String())
		fx.Must(err)
		e = fx.Try(msg.ValidateBasic)
		if e == "" {
			e = fx.Atomically(c.ctx, func(ctx sdk.Context) error { _, err := c.bms.RequestSignature(ctx, msg); return err })
		}
	}
	c.emit(fx.M{"op": "request", "sender": sender, "authority": authority, "feeLimit": limit, "height": c.height}, e)
}

// oracleSigning: the signing source "oracle result".  A resolved data request that asked for a threshold signature is
// passed to Keeper.ResolveSuccess, which creates the signing inside safeCreateSigning (cache context + panic recovery).
// A finite gas meter interrupts the creation at an arbitrary store access (an out-of-gas panic): before or after the
// fee transfer, after some members' nonces were dequeued, before the attempt is stored.  Whatever happens, the
// creation must have happened completely or not at all.
func (c *caseT) oracleSigning() {
	r := c.r
	sender := r.Intn(len(c.reqs))
	limit := make([]int64, len(denoms))
	for i := range denoms {
		limit[i] = c.fee[i]*int64(c.g.T) + int64(r.PickInt(0, 0, 1, 50))
		if r.Chance(1, 8) && limit[i] > 0 {
			limit[i]--
		}
	}
	c.orid++
	rid := oracletypes.RequestID(1000 + c.orid)
	requester := c.reqs[sender].Address.String()
	before := c.app.TSSKeeper.GetSigningCount(c.ctx)
	c.app.OracleKeeper.SetRequest(c.ctx, rid, oracletypes.NewRequest(1, []byte("calldata"), nil, 1, c.height, time.Unix(0, c.now).UTC(), "client", nil, nil, 0,
		oracletypes.ENCODER_PROTO, requester, coinsOf(limit)))
	gas := uint64(0) // 0: the infinite meter of the end-blocker
	ctx := c.ctx
	if r.Chance(2, 3) {
		gas = uint64(r.Range(10, 400)) * 250
		ctx = c.ctx.WithGasMeter(storetypes.NewGasMeter(gas))
	}
	_ = fx.Try(func() error {
		c.app.OracleKeeper.ResolveSuccess(ctx, rid, requester, coinsOf(limit), []byte("result"), 0, oracletypes.ENCODER_PROTO)
		return nil
	})
	e := "not-created"
	if c.app.TSSKeeper.GetSigningCount(c.ctx) > before {
		e = ""
	}
	c.emit(fx.M{"op": "oracleSigning", "sender": sender, "feeLimit": limit, "height": c.height, "gas": gas}, e)
}

func (c *caseT) submit() {
	r := c.r
	tk := c.app.TSSKeeper
	n := tk.GetSigningCount(c.ctx)
	if n == 0 {
		return
	}
	sid := tss.SigningID(1 + r.Intn(int(n)))
	if r.Chance(1, 20) {
		sid = tss.SigningID(n + 1)
	}
	member := r.Range(1, int(c.g.N))
	// prefer an assigned member that has not signed yet
	if sg, err := tk.GetSigning(c.ctx, sid); err == nil && r.Chance(4, 5) {
		if sa, err := tk.GetSigningAttempt(c.ctx, sid, sg.CurrentAttempt); err == nil {
			var cands []int
			for _, am := range sa.AssignedMembers {
				if !tk.HasPartialSignature(c.ctx, sid, sg.CurrentAttempt, am.MemberID) {
					cands = append(cands, int(am.MemberID))
				}
			}
			if len(cands) > 0 {
				member = cands[r.Intn(len(cands))]
			}
		}
	}
	signerOk, valid := true, true
	sig, err := c.g.Sign(c.ctx, tk, sid, tss.MemberID(member))
	if err != nil {
		// not assigned / unknown signing: any well-formed signature
		sig = append(append([]byte{}, make([]byte, 33)...), make([]byte, 32)...)
		sig[0] = 2
		valid = false
	} else if r.Chance(1, 6) {
		valid = false
		sig = append([]byte{}, sig...)
		sig[len(sig)-1] ^= 1 // corrupt the scalar
		c.tr.Tag("corrupt-scalar")
	}
	signer := c.g.Addr(member)
	if r.Chance(1, 12) {
		signerOk = false
		signer = c.g.Addr(member%int(c.g.N) + 1)
		c.tr.Tag("wrong-signer")
		if c.g.N == 1 {
			signerOk = true
		}
	}
	msg := tsstypes.NewMsgSubmitSignature(sid, tss.MemberID(member), sig, signer.String())
	e := fx.Atomically(c.ctx, func(ctx sdk.Context) error { _, err := c.tms.SubmitSignature(ctx, msg); return err })
	c.emit(fx.M{"op": "submit", "sid": uint64(sid), "member": member, "signerOk": signerOk, "valid": valid}, e)
}

func (c *caseT) endBlock() {
	e := fx.Try(func() error { return tssmod.EndBlocker(c.ctx, c.app.TSSKeeper) })
	if e == "" {
		e = fx.Try(func() error { return bandtss.EndBlocker(c.ctx, c.app.BandtssKeeper) })
	}
	c.emit(fx.M{"op": "endBlock", "height": c.height, "now": fx.I(c.now)}, e)
	c.height += int64(c.r.PickInt(1, 1, 1, 2))
	c.now += int64(c.r.PickInt(1, 3, 6)) * 1_000_000_000
	c.setClock()
}

func (c *caseT) activate() {
	id := c.r.Range(1, int(c.g.N))
	msg := &bandtsstypes.MsgActivate{Sender: c.g.Addr(id).String(), GroupID: c.g.GroupID}
	e := fx.Atomically(c.ctx, func(ctx sdk.Context) error { _, err := c.bms.Activate(ctx, msg); return err })
	c.emit(fx.M{"op": "activate", "member": id, "now": fx.I(c.now)}, e)
}

func (c *caseT) setParams(emit bool) (period, maxAtt, maxDE uint64) {
	r := c.r
	period = uint64(r.PickInt(1, 2, 3))
	maxAtt = uint64(r.PickInt(0, 1, 2, 3))
	maxDE = uint64(r.PickInt(2, 3, 5, 10))
	tp := c.app.TSSKeeper.GetParams(c.ctx)
	tp.SigningPeriod, tp.MaxSigningAttempt, tp.MaxDESize = period, maxAtt, maxDE
	fx.Must(c.app.TSSKeeper.SetParams(c.ctx, tp))
	c.fee = []int64{int64(r.PickInt(0, 1, 10, 50)), int64(r.PickInt(0, 0, 3))}
	bp := c.app.BandtssKeeper.GetParams(c.ctx)
	bp.FeePerSigner = coinsOf(c.fee)
	fx.Must(c.app.BandtssKeeper.SetParams(c.ctx, bp))
	if emit {
		c.emit(fx.M{"op": "setParams", "signingPeriod": period, "maxAttempt": maxAtt, "maxDE": maxDE, "feePerSigner": c.fee}, "")
	}
	return
}

// RunCase generates one case.
// reimport: export the module's genesis and initialise a branch of the store from it (what a chain upgrade by
// export/import does); the branch is then observed like the state itself — nothing the model tracks may differ, in
// particular every member's nonce queue holds the same pairs in the same order
func (c *caseT) reimport() {
	// (InitGenesis refuses a queue longer than the CURRENT MaxDESize, which a parameter change can leave behind: such
	// states are not re-imported here — see DESIGN §9.4, observation on MaxDESize)
	max := c.app.TSSKeeper.GetParams(c.ctx).MaxDESize
	for id := 1; id <= int(c.g.N); id++ {
		q := c.app.TSSKeeper.GetDEQueue(c.ctx, c.g.Addr(id))
		if q.Tail-q.Head > max {
			return
		}
	}
	cctx, _ := c.ctx.CacheContext()
	saved := c.ctx
	riffle := c.r.Chance(1, 2)
	e := fx.Try(func() error {
		g := c.app.TSSKeeper.ExportGenesis(cctx)
		if riffle {
			// a genesis file need not list the nonces grouped by member: the same queues, listed round-robin across the
			// members (each member's own order kept), must import to the same state
			byAddr := map[string][]tsstypes.DEGenesis{}
			var order []string
			for _, d := range g.DEs {
				if _, ok := byAddr[d.Address]; !ok {
					order = append(order, d.Address)
				}
				byAddr[d.Address] = append(byAddr[d.Address], d)
			}
			var mixed []tsstypes.DEGenesis
			for len(mixed) < len(g.DEs) {
				for _, a := range order {
					if len(byAddr[a]) > 0 {
						mixed = append(mixed, byAddr[a][0])
						byAddr[a] = byAddr[a][1:]
					}
				}
			}
			// (a queue holding an injected malformed pair does not pass genesis validation: such an export is imported as it is)
			g2 := *g
			g2.DEs = mixed
			if g2.Validate() == nil {
				g.DEs = mixed
			}
		}
		c.app.TSSKeeper.InitGenesis(cctx, *g)
		return nil
	})
	c.ctx = cctx
	out := c.dump()
	c.ctx = saved
	out["err"] = e
	c.tr.Op(fx.M{"op": "reimport", "out": out})
}

func RunCase(app *fx.App, tr *fx.Trace, r *fx.Rng) {
	ctx, _ := app.Ctx.CacheContext()
	c := &caseT{app: app, ctx: ctx, tr: tr, r: r, tms: tsskeeper.NewMsgServerImpl(app.TSSKeeper), bms: bandtsskeeper.NewMsgServerImpl(app.BandtssKeeper),
		reqs: []bandtesting.Account{bandtesting.Bob, bandtesting.Carol}, tokens: map[string]int{}}
	c.height = int64(r.Range(10, 30))
	c.faults = r.Chance(1, 2)
	c.now = 1_700_000_000_000_000_000 + int64(r.Range(0, 100))*1_000_000_000
	c.setClock()
	period, maxAtt, maxDE := c.setParams(false)
	pen := int64(r.PickInt(1, 3_000_000_000, 10_000_000_000))
	bp := app.BandtssKeeper.GetParams(c.ctx)
	bp.InactivePenaltyDuration = time.Duration(pen)
	fx.Must(app.BandtssKeeper.SetParams(c.ctx, bp))
	n := uint64(r.PickInt(1, 2, 3, 3, 4))
	t := uint64(r.Range(1, int(n)))
	g, err := tssfx.NewGroup(app, c.ctx, n, t, bandtsstypes.ModuleName)
	fx.Must(err)
	c.g = g
	g.MakeCurrent(app, c.ctx)
	var reqBal []any
	for _, a := range c.reqs {
		for _, d := range denoms {
			b := app.BankKeeper.GetBalance(c.ctx, a.Address, d)
			if b.Amount.IsPositive() {
				fx.Must(app.BankKeeper.SendCoinsFromAccountToModule(c.ctx, a.Address, authtypes.FeeCollectorName, sdk.NewCoins(b)))
			}
			app.Fund(c.ctx, a.Address, d, sdkmath.NewInt(int64(r.PickInt(5, 60, 500, 5000))))
		}
		reqBal = append(reqBal, amounts(app.BankKeeper.GetAllBalances(c.ctx, a.Address)))
	}
	var memBal []any
	for id := 1; id <= int(n); id++ {
		memBal = append(memBal, amounts(app.BankKeeper.GetAllBalances(c.ctx, g.Addr(id))))
	}
	escrow := amounts(app.BankKeeper.GetAllBalances(c.ctx, app.AccountKeeper.GetModuleAddress(bandtsstypes.ModuleName)))
	tr.Reset(fx.M{"kind": "tss", "denoms": denoms, "n": n, "threshold": t, "nreq": len(c.reqs), "signingPeriod": period, "maxAttempt": maxAtt, "maxDE": maxDE,
		"penalty": fx.I(pen), "since": fx.I(c.now), "feePerSigner": c.fee, "escrow": escrow, "reqBal": reqBal, "memBal": memBal})
	// most members start with some DEs
	for id := 1; id <= int(n); id++ {
		if r.Chance(4, 5) {
			k := r.Range(1, int(maxDE))
			des := g.NewDEs(id, k)
			msg := &tsstypes.MsgSubmitDEs{DEs: des, Sender: g.Addr(id).String()}
			e := fx.Atomically(c.ctx, func(ctx sdk.Context) error { _, err := c.tms.SubmitDEs(ctx, msg); return err })
			if e == "" {
				for _, d := range des {
					c.tokens[hex.EncodeToString(d.PubD)] = c.next
					c.next++
				}
			}
			c.emit(fx.M{"op": "submitDE", "member": id, "k": k}, e)
		}
	}
	nops := r.Range(10, 45)
	for i := 0; i < nops; i++ {
		if c.faults && r.Chance(1, 4) {
			c.badDE()
			continue
		}
		switch x := r.Intn(40); {
		case x < 6:
			c.submitDE()
		case x < 7:
			c.resetDE()
		case x < 12:
			c.request()
			if r.Chance(1, 6) {
				// the signing period changes between two requests (governance), then nobody signs: when it SHRINKS the later
				// signing expires first, and the expiry FIFO is no longer sorted by expiry height
				c.endBlock()
				p0 := c.app.TSSKeeper.GetParams(c.ctx).SigningPeriod
				c.setParams(true)
				c.request()
				p1 := c.app.TSSKeeper.GetParams(c.ctx).SigningPeriod
				if p1 > p0 {
					p0, p1 = p1, p0
				}
				c.quietUntil = c.height + int64(p0) + 2
			} else if r.Chance(1, 3) {
				// a second signing in the same block: both attempts expire in the same end-block and are retried one after
				// the other there (each retry on its own branch of the state)
				c.request()
				if c.faults && r.Chance(1, 2) {
					// one member's queue becomes [malformed pair, good pair]: the first retry that reaches it fails after it
					// has taken other members' nonces; the second one must start from the state before the first
					c.forceID = r.Range(1, int(c.g.N))
					c.resetDE()
					c.badDE()
					c.submitDE()
					c.forceID = 0
					c.quietUntil = c.height + int64(c.app.TSSKeeper.GetParams(c.ctx).SigningPeriod) + 1
				}
			}
		case x < 14:
			c.oracleSigning()
		case x < 27:
			if c.height <= c.quietUntil {
				c.endBlock() // nobody signs: the two signings of the directed situation time out together
			} else {
				c.submit()
			}
		case x < 36:
			c.endBlock()
		case x < 39:
			c.activate()
		default:
			c.setParams(true)
		}
		if r.Chance(1, 20) {
			c.reimport()
		}
	}
	c.reimport()
	for i := 0; i < 4; i++ {
		c.endBlock()
	}
}
