// c15: correspondence harness for C15 (oracle validator activation / deactivation).
// Real oracle Keeper.Activate / MissReport, feeds keeper.CheckMissReport and the miss-report sweep of
// feeds CalculatePrices on the in-process app, with nanosecond block times around every boundary.
package main

import (
	"errors"
	"time"

	sdk "github.com/cosmos/cosmos-sdk/types"
	stakingtypes "github.com/cosmos/cosmos-sdk/x/staking/types"

	bandtesting "github.com/bandprotocol/chain/v3/testing"
	feedskeeper "github.com/bandprotocol/chain/v3/x/feeds/keeper"
	feedstypes "github.com/bandprotocol/chain/v3/x/feeds/types"
	oracletypes "github.com/bandprotocol/chain/v3/x/oracle/types"

	"verifharness/internal/fx"
)

const base = int64(1_700_000_000)

func tm(ns int64) time.Time { return time.Unix(0, ns).UTC() }

func statusJSON(s oracletypes.ValidatorStatus) []any {
	if s.Since.IsZero() {
		return []any{s.IsActive, true, 0}
	}
	return []any{s.IsActive, false, fx.I(s.Since.UnixNano())}
}

type caseT struct {
	app *fx.App
	ctx sdk.Context
	tr  *fx.Trace
	r   *fx.Rng
	now int64 // ns
	pen int64 // ns
}

func (c *caseT) status(i int) oracletypes.ValidatorStatus {
	return c.app.OracleKeeper.GetValidatorStatus(c.ctx, bandtesting.Validators[i].ValAddress)
}

func (c *caseT) all() [][]any {
	var l [][]any
	for i := range bandtesting.Validators {
		l = append(l, statusJSON(c.status(i)))
	}
	return l
}

// advance moves the clock: same instant, +1ns, whole seconds, exactly one penalty, penalty±1ns.
func (c *caseT) advance() {
	r := c.r
	var d int64
	switch r.Intn(8) {
	case 0:
		d = 0
	case 1:
		d = 1
	case 2:
		d = c.pen
	case 3:
		d = c.pen - 1
	case 4:
		d = c.pen + 1
	case 5:
		d = int64(r.Range(1, 5)) * 1_000_000_000
	case 6:
		d = 999_999_999
	default:
		d = int64(r.Range(0, 3_000_000_000))
	}
	if d < 0 {
		d = 0
	}
	c.now += d
	c.ctx = c.ctx.WithBlockTime(tm(c.now)).WithBlockHeight(c.ctx.BlockHeight() + int64(r.Range(0, 2)))
}

func (c *caseT) activate(i int) {
	v := bandtesting.Validators[i].ValAddress
	errS := fx.Try(func() error { return c.app.OracleKeeper.Activate(c.ctx, v) })
	c.tr.Op(fx.M{"op": "activate", "val": i, "now": fx.I(c.now), "penalty": fx.I(c.pen),
		"out": fx.M{"err": errS, "status": statusJSON(c.status(i))}})
}

func (c *caseT) missReport(i int) {
	v := bandtesting.Validators[i].ValAddress
	st := c.status(i)
	// request time around the validator's Since (ns) and truncated to seconds like Request.RequestTime
	var rt int64
	since := c.now
	if !st.Since.IsZero() {
		since = st.Since.UnixNano()
	}
	switch c.r.Intn(6) {
	case 0:
		rt = since
	case 1:
		rt = since + 1
	case 2:
		rt = since - 1
	case 3:
		rt = (since / 1_000_000_000) * 1_000_000_000 // truncated to the second
	case 4:
		rt = (since/1_000_000_000 + 1) * 1_000_000_000
	default:
		rt = c.now - int64(c.r.Range(0, 4_000_000_000))
	}
	c.app.OracleKeeper.MissReport(c.ctx, v, tm(rt))
	c.tr.Op(fx.M{"op": "missReport", "val": i, "requestTime": fx.I(rt), "now": fx.I(c.now), "out": fx.M{"status": statusJSON(c.status(i))}})
}

func (c *caseT) pureCheckMiss() {
	r := c.r
	grace := int64(r.PickInt(0, 1, 2, 3, 4, 30, 31))
	iv := int64(r.PickInt(1, 2, 3, 4, 60, 61))
	bt := base + int64(r.Range(100, 200))
	bh := int64(r.Range(100, 200))
	near := func(x int64) int64 { return x + int64(r.Range(-2, 2)) }
	lastUpd := near(bt - grace)
	lastUpdBlock := near(bh - grace/3)
	since := near(bt - grace)
	hasPrice := r.Chance(2, 3)
	pts := near(bt - iv)
	pbh := near(bh - iv/3)
	if r.Chance(1, 4) {
		lastUpd, lastUpdBlock, since = bt-1000, bh-1000, bt-1000 // everything long ago: the price decides
	}
	st := feedstypes.SIGNAL_PRICE_STATUS_UNSPECIFIED
	if hasPrice {
		st = feedstypes.SignalPriceStatus(r.Range(1, 3))
	}
	res := feedskeeper.CheckMissReport(
		feedstypes.Feed{SignalID: "x", Interval: iv}, lastUpd, lastUpdBlock,
		feedstypes.ValidatorPrice{SignalPriceStatus: st, SignalID: "x", Timestamp: pts, BlockHeight: pbh},
		feedstypes.ValidatorInfo{Status: oracletypes.NewValidatorStatus(true, time.Unix(since, int64(r.PickInt(0, 1, 999_999_999))))},
		time.Unix(bt, int64(r.PickInt(0, 1, 999_999_999))), bh, grace)
	c.tr.Op(fx.M{"op": "checkMiss", "interval": iv, "lastUpd": lastUpd, "lastUpdBlock": lastUpdBlock, "hasPrice": hasPrice,
		"priceTs": pts, "priceBlock": pbh, "since": since, "blockTime": bt, "blockHeight": bh, "grace": grace, "out": res})
}

func (c *caseT) feedsEndBlock() {
	r := c.r
	fk := c.app.FeedsKeeper
	grace := int64(r.PickInt(1, 2, 3, 6, 30))
	p := fk.GetParams(c.ctx)
	p.GracePeriod = grace
	fx.Must(fk.SetParams(c.ctx, p))
	nowS := c.now / 1_000_000_000
	height := c.ctx.BlockHeight()
	// the feed list was last updated around (now - grace)
	lastUpd := nowS - grace + int64(r.Range(-2, 2))
	lastUpdBlock := height - grace/3 + int64(r.Range(-2, 2))
	if r.Chance(1, 3) {
		lastUpd, lastUpdBlock = nowS-10_000, height-10_000
		if lastUpdBlock < 1 {
			lastUpdBlock = 1
		}
	}
	nf := r.Range(1, 3)
	var feeds []feedstypes.Feed
	var intervals []int64
	for i := 0; i < nf; i++ {
		iv := int64(r.PickInt(1, 2, 3, 6, 60))
		feeds = append(feeds, feedstypes.Feed{SignalID: []string{"CS:A", "CS:B", "CS:C"}[i], Power: 1000, Interval: iv})
		intervals = append(intervals, iv)
	}
	fk.SetCurrentFeeds(c.ctx.WithBlockTime(time.Unix(lastUpd, 0).UTC()).WithBlockHeight(lastUpdBlock), feeds)
	pricesOf := map[int][][]any{}
	for i, v := range bandtesting.Validators {
		var vps []feedstypes.ValidatorPrice
		var pj [][]any
		skipList := r.Chance(1, 8)
		for _, f := range feeds {
			st := feedstypes.SignalPriceStatus(r.PickInt(0, 1, 2, 3, 3, 3))
			ts := nowS - f.Interval + int64(r.Range(-2, 2))
			bh := height - f.Interval/3 + int64(r.Range(-2, 2))
			if r.Chance(1, 3) {
				ts, bh = nowS, height
			}
			has := st != feedstypes.SIGNAL_PRICE_STATUS_UNSPECIFIED && !skipList
			vps = append(vps, feedstypes.ValidatorPrice{SignalPriceStatus: st, SignalID: f.SignalID, Price: 100, Timestamp: ts, BlockHeight: bh})
			if has {
				pj = append(pj, []any{true, ts, bh})
			} else {
				pj = append(pj, []any{false, 0, 0})
			}
		}
		if !skipList {
			if r.Chance(1, 3) {
				// the stored list is in the order of an EARLIER feed list (the feeds were re-ranked since the submission), and may
				// still hold a signal that is no longer current: prices belong to their signal, not to a position
				for a, b := 0, len(vps)-1; a < b; a, b = a+1, b-1 {
					vps[a], vps[b] = vps[b], vps[a]
				}
				if r.Chance(1, 2) {
					vps = append([]feedstypes.ValidatorPrice{{SignalPriceStatus: feedstypes.SIGNAL_PRICE_STATUS_AVAILABLE, SignalID: "CS:GONE", Price: 7, Timestamp: nowS, BlockHeight: height}}, vps...)
				}
			}
			fx.Must(fk.SetValidatorPriceList(c.ctx, v.ValAddress, vps))
		} else {
			c.ctx.KVStore(c.app.GetKey(feedstypes.StoreKey)).Delete(feedstypes.ValidatorPriceListStoreKey(v.ValAddress))
		}
		pricesOf[i] = pj
	}
	// env: active bonded validators in the staking iteration order, with the status captured now
	var vals []fx.M
	fx.Must(c.app.StakingKeeper.IterateBondedValidatorsByPower(c.ctx, func(_ int64, val stakingtypes.ValidatorI) bool {
		for i, v := range bandtesting.Validators {
			if v.ValAddress.String() == val.GetOperator() {
				st := c.status(i)
				if st.IsActive {
					vals = append(vals, fx.M{"idx": i, "since": fx.I(st.Since.UnixNano()), "prices": pricesOf[i]})
				}
			}
		}
		return false
	}))
	if vals == nil {
		vals = []fx.M{}
	}
	errS := fx.Try(func() error { return fk.CalculatePrices(c.ctx) })
	c.tr.Op(fx.M{"op": "feedsEndBlock", "lastUpd": lastUpd, "lastUpdBlock": lastUpdBlock, "now": fx.I(c.now), "height": height,
		"grace": grace, "intervals": intervals, "vals": vals, "out": fx.M{"statuses": c.all()}, "err": errS})
}

// submitPrices: the real MsgSubmitSignalPrices handler on a re-ranked feed list, with a previous price list that may be
// in another order and hold signals that are no longer current, a sender clock that differs from the block time, and
// the cool-down around its boundary.  The stored list is read back.
func (c *caseT) submitPrices() {
	r := c.r
	fk := c.app.FeedsKeeper
	ms := feedskeeper.NewMsgServerImpl(fk)
	p := fk.GetParams(c.ctx)
	p.CooldownTime = int64(r.PickInt(1, 2, 5, 30))
	p.AllowableBlockTimeDiscrepancy = int64(r.PickInt(1, 2, 10, 60))
	fx.Must(fk.SetParams(c.ctx, p))
	nowS := c.now / 1_000_000_000
	height := c.ctx.BlockHeight()
	all := []string{"CS:A", "CS:B", "CS:C", "CS:D"}
	perm := r.Perm(len(all))
	nf := r.Range(1, 4)
	var feeds []feedstypes.Feed
	var fids []string
	for _, k := range perm[:nf] {
		feeds = append(feeds, feedstypes.Feed{SignalID: all[k], Power: 1000, Interval: 60})
		fids = append(fids, all[k])
	}
	fk.SetCurrentFeeds(c.ctx, feeds)
	i := r.Intn(len(bandtesting.Validators))
	if !r.Chance(1, 6) {
		// mostly a validator that is required to send (oracle-active); sometimes any
		for k := range bandtesting.Validators {
			if c.status(k).IsActive {
				i = k
			}
		}
	}
	val := bandtesting.Validators[i].ValAddress
	// the previous list: any order, any subset, possibly a signal that is not current any more
	var prev []feedstypes.ValidatorPrice
	var prevJ [][]any
	if !r.Chance(1, 5) {
		for _, k := range r.Perm(len(all))[:r.Range(0, 4)] {
			st := feedstypes.SignalPriceStatus(r.PickInt(0, 1, 2, 3, 3))
			ts := nowS - p.CooldownTime + int64(r.Range(-2, 2))
			if r.Chance(1, 3) {
				ts = nowS - int64(r.Range(0, 100))
			}
			vp := feedstypes.ValidatorPrice{SignalPriceStatus: st, SignalID: all[k], Price: uint64(r.Range(1, 1000)), Timestamp: ts, BlockHeight: height - int64(r.Range(0, 30))}
			prev = append(prev, vp)
			prevJ = append(prevJ, []any{int(st), vp.SignalID, fx.U(vp.Price), vp.Timestamp, vp.BlockHeight})
		}
		fx.Must(fk.SetValidatorPriceList(c.ctx, val, prev))
	} else {
		c.ctx.KVStore(c.app.GetKey(feedstypes.StoreKey)).Delete(feedstypes.ValidatorPriceListStoreKey(val))
	}
	if prevJ == nil {
		prevJ = [][]any{}
	}
	var sps []feedstypes.SignalPrice
	msgJ := [][]any{}
	nm := r.Range(0, nf)
	if r.Chance(1, 8) {
		nm = r.Range(0, 4)
	}
	mperm := append([]int{}, perm[:nf]...) // mostly current signals, sometimes one that is not
	if r.Chance(1, 6) {
		mperm = r.Perm(len(all))
	}
	if nm > len(mperm) {
		nm = len(mperm)
	}
	for a, b := range r.Perm(len(mperm)) {
		mperm[a], mperm[b] = mperm[b], mperm[a]
	}
	for _, k := range mperm[:nm] {
		st := feedstypes.SignalPriceStatus(r.PickInt(1, 2, 3, 3, 3))
		sp := feedstypes.SignalPrice{Status: st, SignalID: all[k], Price: uint64(r.Range(1, 1000))}
		if st != feedstypes.SIGNAL_PRICE_STATUS_AVAILABLE {
			sp.Price = 0
		}
		sps = append(sps, sp)
		msgJ = append(msgJ, []any{sp.SignalID, int(st), fx.U(sp.Price)})
	}
	msgTs := nowS + int64(r.PickInt(0, 0, 1, -1, 45, -45)) + int64(r.PickInt(0, 0, int(p.AllowableBlockTimeDiscrepancy), -int(p.AllowableBlockTimeDiscrepancy), int(p.AllowableBlockTimeDiscrepancy)+1))
	required := fk.ValidateValidatorRequiredToSend(c.ctx, val) == nil
	msg := feedstypes.NewMsgSubmitSignalPrices(val.String(), msgTs, sps)
	class := ""
	errS := fx.Atomically(c.ctx, func(ctx sdk.Context) error {
		{
			_, err := ms.SubmitSignalPrices(ctx, msg)
			switch {
			case err == nil:
			case errors.Is(err, feedstypes.ErrSignalPricesTooLarge):
				class = "tooLarge"
			case errors.Is(err, feedstypes.ErrNotBondedValidator), errors.Is(err, feedstypes.ErrOracleStatusNotActive):
				class = "notRequired"
			case errors.Is(err, feedstypes.ErrInvalidTimestamp):
				class = "badTimestamp"
			case errors.Is(err, feedstypes.ErrSignalIDNotSupported):
				class = "notSupported"
			case errors.Is(err, feedstypes.ErrPriceSubmitTooEarly):
				class = "tooEarly"
			default:
				class = "other:" + err.Error()
			}
			return err
		}
	})
	if errS != "" && class == "" {
		class = errS // a panic
	}
	stored := [][]any{}
	if l, err := fk.GetValidatorPriceList(c.ctx, val); err == nil {
		for _, vp := range l.ValidatorPrices {
			stored = append(stored, []any{int(vp.SignalPriceStatus), vp.SignalID, fx.U(vp.Price), vp.Timestamp, vp.BlockHeight})
		}
	}
	c.tr.Tag("submit:" + class)
	c.tr.Op(fx.M{"op": "submitPrices", "feeds": fids, "prev": prevJ, "msg": msgJ, "msgTs": msgTs, "now": nowS, "height": height,
		"cooldown": p.CooldownTime, "disc": p.AllowableBlockTimeDiscrepancy, "required": required, "accepted": errS == "",
		"out": fx.M{"err": class, "list": stored}})
}

func runCase(app *fx.App, tr *fx.Trace, r *fx.Rng) {
	ctx, _ := app.Ctx.CacheContext()
	c := &caseT{app: app, ctx: ctx, tr: tr, r: r}
	c.pen = int64(r.PickInt(0, 1, 1_000_000_000, 2_500_000_000, 600_000_000_000))
	op := app.OracleKeeper.GetParams(ctx)
	op.InactivePenaltyDuration = uint64(c.pen)
	fx.Must(app.OracleKeeper.SetParams(ctx, op))
	c.now = (base+int64(r.Range(0, 100)))*1_000_000_000 + int64(r.PickInt(0, 1, 500_000_000, 999_999_999))
	c.ctx = c.ctx.WithBlockTime(tm(c.now)).WithBlockHeight(int64(r.Range(20, 60)))
	tr.Reset(fx.M{"n": len(bandtesting.Validators)})
	n := r.Range(4, 16)
	for k := 0; k < n; k++ {
		i := r.Intn(len(bandtesting.Validators))
		switch x := r.Intn(10); {
		case x < 3:
			c.activate(i)
		case x < 6:
			c.missReport(i)
		case x < 8:
			c.feedsEndBlock()
		case x < 9 || r.Chance(1, 2):
			c.submitPrices()
		default:
			c.pureCheckMiss()
		}
		if r.Chance(2, 3) {
			c.advance()
		}
	}
}

func main() {
	a := fx.ParseArgs()
	app := fx.NewApp()
	defer app.Close()
	tr := fx.NewTrace(a.Out)
	n := a.Cases
	if n == 0 {
		n = 1500
	}
	r := fx.NewRng(a.Seed)
	for i := 0; i < n; i++ {
		runCase(app, tr, r.Fork())
	}
	tr.Close()
	tr.WriteStats(a.Stats, nil)
}
