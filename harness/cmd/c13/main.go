// c13: correspondence harness for C13 (service fees): oracle data-request fees through the real
// MsgRequestData (custom data sources with multi-denom fees and treasuries, oracle script 4 that asks
// the data sources named in its calldata) and signing fees (internal/tsscase).
package main

import (
	"encoding/json"
	"fmt"

	sdkmath "cosmossdk.io/math"

	sdk "github.com/cosmos/cosmos-sdk/types"
	authtypes "github.com/cosmos/cosmos-sdk/x/auth/types"

	bandtesting "github.com/bandprotocol/chain/v3/testing"
	oraclekeeper "github.com/bandprotocol/chain/v3/x/oracle/keeper"
	oracletypes "github.com/bandprotocol/chain/v3/x/oracle/types"

	"verifharness/internal/fx"
	"verifharness/internal/tsscase"
)

var denoms = []string{"uband", "ufee"}

func coinsOf(amt []int64) sdk.Coins {
	c := sdk.NewCoins()
	for i, a := range amt {
		if a > 0 {
			c = c.Add(sdk.NewInt64Coin(denoms[i], a))
		}
	}
	return c
}

func amounts(c sdk.Coins) []any {
	out := []any{}
	for _, d := range denoms {
		out = append(out, json.Number(c.AmountOf(d).String()))
	}
	return out
}

func feesCase(app *fx.App, tr *fx.Trace, r *fx.Rng) {
	ctx, _ := app.Ctx.CacheContext()
	ok := app.OracleKeeper
	ms := oraclekeeper.NewMsgServerImpl(ok)
	// accounts: 0 payer, 1..3 treasuries (one of them may be the payer itself)
	accts := []bandtesting.Account{bandtesting.Alice, bandtesting.Bob, bandtesting.Carol, bandtesting.Treasury}
	for _, v := range bandtesting.Validators {
		fx.Must(ok.Activate(ctx, v.ValAddress))
	}
	for _, a := range accts {
		for _, d := range denoms {
			b := app.BankKeeper.GetBalance(ctx, a.Address, d)
			if b.Amount.IsPositive() {
				fx.Must(app.BankKeeper.SendCoinsFromAccountToModule(ctx, a.Address, authtypes.FeeCollectorName, sdk.NewCoins(b)))
			}
		}
	}
	// data sources 6.. with generated fees
	nds := r.Range(1, 4)
	type dsT struct {
		fee      []int64
		treasury int
		id       oracletypes.DataSourceID
	}
	var dss []dsT
	for i := 0; i < nds; i++ {
		fee := []int64{int64(r.PickInt(0, 0, 1, 7, 100)), int64(r.PickInt(0, 0, 0, 3))}
		tre := r.PickInt(1, 2, 3, 1, 0)
		var id oracletypes.DataSourceID
		if r.Bool() {
			// created by its owner through the real MsgCreateDataSource: "its treasury" is the one the message names
			cm := oracletypes.NewMsgCreateDataSource("n", "d", []byte(fmt.Sprintf("#!/bin/sh\necho %d", i)), coinsOf(fee), accts[tre].Address,
				bandtesting.Owner.Address, bandtesting.Owner.Address)
			fx.Must(cm.ValidateBasic())
			_, err := ms.CreateDataSource(ctx, cm)
			fx.Must(err)
			id = oracletypes.DataSourceID(ok.GetDataSourceCount(ctx))
			tr.Tag("data-source-created-by-message")
		} else {
			id = ok.AddDataSource(ctx, oracletypes.NewDataSource(bandtesting.Owner.Address, "n", "d", bandtesting.DataSources[1].Filename, coinsOf(fee), accts[tre].Address))
		}
		dss = append(dss, dsT{fee, tre, id})
	}
	payerBal := []int64{int64(r.PickInt(0, 50, 1000, 100000)), int64(r.PickInt(0, 5, 100))}
	app.Fund(ctx, accts[0].Address, "uband", sdkmath.NewInt(payerBal[0]))
	app.Fund(ctx, accts[0].Address, "ufee", sdkmath.NewInt(payerBal[1]))
	var bal []any
	for _, a := range accts {
		bal = append(bal, amounts(app.BankKeeper.GetAllBalances(ctx, a.Address)))
	}
	tr.Reset(fx.M{"kind": "fees", "denoms": denoms, "bal": bal})
	for k := 0; k < 6; k++ {
		if r.Chance(1, 3) {
			// the owner moves a data source to another treasury and/or changes its fee (real MsgEditDataSource); from now
			// on "its treasury" and "its fee" are what the accepted edit says
			i := r.Intn(len(dss))
			fee := dss[i].fee
			if r.Bool() {
				fee = []int64{int64(r.PickInt(0, 1, 7, 100)), int64(r.PickInt(0, 0, 3))}
			}
			tre := r.PickInt(1, 2, 3, 0)
			em := oracletypes.NewMsgEditDataSource(dss[i].id, oracletypes.DoNotModify, oracletypes.DoNotModify, oracletypes.DoNotModifyBytes, coinsOf(fee),
				accts[tre].Address, bandtesting.Owner.Address, bandtesting.Owner.Address)
			if fx.Try(em.ValidateBasic) == "" {
				if e := fx.Atomically(ctx, func(c sdk.Context) error { _, err := ms.EditDataSource(c, em); return err }); e == "" {
					dss[i].fee, dss[i].treasury = fee, tre
					tr.Tag("data-source-edited")
				}
			}
		}
		ask := uint64(r.Range(1, 3))
		nraw := r.Range(1, 4)
		var srcs []fx.M
		calldata := []byte{0, 0, 0, byte(nraw)}
		cost := make([]int64, len(denoms))
		for i := 0; i < nraw; i++ {
			ds := dss[r.Intn(len(dss))] // repeated sources are counted each time
			calldata = append(calldata, 0, 0, 0, 0, 0, 0, 0, byte(ds.id))
			srcs = append(srcs, fx.M{"fee": ds.fee, "treasury": ds.treasury})
			for d := range denoms {
				cost[d] += ds.fee[d] * int64(ask)
			}
		}
		calldata = append(calldata, 0, 0, 0, 4, 'b', 'e', 'e', 'b')
		limit := make([]int64, len(denoms))
		for d := range denoms {
			switch r.Intn(5) {
			case 0:
				limit[d] = cost[d]
			case 1:
				limit[d] = cost[d] - 1
			case 2:
				limit[d] = cost[d] + 1
			default:
				limit[d] = cost[d] + int64(r.Range(0, 100))
			}
			if limit[d] < 0 {
				limit[d] = 0
			}
		}
		msg := oracletypes.NewMsgRequestData(4, calldata, ask, 1, "c", coinsOf(limit), bandtesting.TestDefaultPrepareGas,
			bandtesting.TestDefaultExecuteGas, accts[0].Address, oracletypes.ENCODER_UNSPECIFIED)
		e := fx.Try(msg.ValidateBasic)
		if e != "" {
			continue
		}
		e = fx.Atomically(ctx, func(c sdk.Context) error { _, err := ms.RequestData(c, msg); return err })
		var nb []any
		for _, a := range accts {
			nb = append(nb, amounts(app.BankKeeper.GetAllBalances(ctx, a.Address)))
		}
		var remaining any
		if e == "" {
			rq := ok.MustGetRequest(ctx, oracletypes.RequestID(ok.GetRequestCount(ctx)))
			remaining = amounts(rq.FeeLimit)
		}
		tr.Op(fx.M{"op": "dataRequest", "payer": 0, "ask": ask, "limit": limit, "sources": srcs, "nacct": len(accts),
			"out": fx.M{"err": e, "bal": nb, "remaining": remaining}})
	}
}

func main() {
	a := fx.ParseArgs()
	app := fx.NewApp()
	defer app.Close()
	tr := fx.NewTrace(a.Out)
	n := a.Cases
	if n == 0 {
		n = 300
	}
	r := fx.NewRng(a.Seed)
	for i := 0; i < n; i++ {
		if i%3 == 2 {
			tsscase.RunCase(app, tr, r.Fork())
		} else {
			feesCase(app, tr, r.Fork())
		}
	}
	tr.Close()
	tr.WriteStats(a.Stats, nil)
}
