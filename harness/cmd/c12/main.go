// c12 builds an in-process BandApp, commits blocks with synthetic CometBFT headers and commits (votes signed
// with CometBFT's canonical VoteSignBytes by secp256k1 test validators, each commit accepted by
// ValidatorSet.VerifyCommit), and asks the REAL proof service for relay proofs through a mock RPC client backed
// by the app.  Each line carries the raw inputs (ICS-23 existence proofs, header, commit), the service's answer,
// and the ground truth (app hash, block id, who pre-committed, the mounted stores' commit info); the Lean driver
// rebuilds the proof with the model and verifies it with the bridge algorithm (Drivers/C12.lean).
package main

import (
	"bytes"
	"context"
	"encoding/hex"
	"fmt"
	"sort"
	"time"

	abci "github.com/cometbft/cometbft/abci/types"
	"github.com/cometbft/cometbft/crypto/secp256k1"
	cmtbytes "github.com/cometbft/cometbft/libs/bytes"
	cmtproto "github.com/cometbft/cometbft/proto/tendermint/types"
	cmtversion "github.com/cometbft/cometbft/proto/tendermint/version"
	rpcclient "github.com/cometbft/cometbft/rpc/client"
	coretypes "github.com/cometbft/cometbft/rpc/core/types"
	cmttypes "github.com/cometbft/cometbft/types"
	ics23 "github.com/cosmos/ics23/go"
	ethcrypto "github.com/ethereum/go-ethereum/crypto"

	"cosmossdk.io/store/rootmulti"
	storetypes "cosmossdk.io/store/types"
	"github.com/cosmos/cosmos-sdk/client"
	"github.com/cosmos/cosmos-sdk/server/config"
	sdk "github.com/cosmos/cosmos-sdk/types"

	"github.com/bandprotocol/chain/v3/client/grpc/oracle/proof"
	bandtesting "github.com/bandprotocol/chain/v3/testing"
	oracletypes "github.com/bandprotocol/chain/v3/x/oracle/types"

	"verifharness/internal/fx"
)

func hx(b []byte) string { return hex.EncodeToString(b) }

type chain struct {
	app      *fx.App
	chainID  string
	r        *fx.Rng
	vals     []secp256k1.PrivKey
	headers  map[int64]*cmttypes.SignedHeader
	signers  map[int64]map[string]bool
	valsAt   map[int64][]secp256k1.PrivKey
	height   int64
	appHash  []byte
	lastID   cmttypes.BlockID
	lastComm *cmttypes.Commit
	now      time.Time
	results  []uint64
	count    uint64
	keySeq   int
}

func (c *chain) newKeys(n int) []secp256k1.PrivKey {
	keys := make([]secp256k1.PrivKey, n)
	for i := range keys {
		c.keySeq++
		keys[i] = secp256k1.GenPrivKeySecp256k1([]byte(fmt.Sprintf("verif-val-%d", c.keySeq)))
	}
	return keys
}

func valSetOf(keys []secp256k1.PrivKey, powers []int64) *cmttypes.ValidatorSet {
	vals := make([]*cmttypes.Validator, len(keys))
	for i, k := range keys {
		vals[i] = cmttypes.NewValidator(k.PubKey(), powers[i%len(powers)])
	}
	return cmttypes.NewValidatorSet(vals)
}

func ethAddrOf(k secp256k1.PrivKey) []byte {
	pub, err := ethcrypto.DecompressPubkey(k.PubKey().Bytes())
	fx.Must(err)
	return ethcrypto.PubkeyToAddress(*pub).Bytes()
}

var powers = []int64{10, 10, 10, 10, 10, 10, 10}

func (c *chain) produce() {
	r := c.r
	h := c.height + 1
	// block time: whole seconds sometimes (no nanos field in the encoded time)
	c.now = c.now.Add(time.Duration(r.Range(1, 6)) * time.Second)
	bt := c.now
	if !r.Chance(1, 4) {
		bt = bt.Add(time.Duration(r.Range(1, 999_999_999)))
	}
	curVals := c.vals
	nextVals := curVals
	if r.Chance(1, 5) {
		nextVals = c.newKeys(r.PickInt(1, 2, 3, 4, 7))
	}
	curSet, nextSet := valSetOf(curVals, powers), valSetOf(nextVals, powers)
	fill := func(b byte) []byte { return bytes.Repeat([]byte{b}, 32) }
	header := &cmttypes.Header{
		Version:            cmtversion.Consensus{Block: 11, App: uint64(r.PickInt(0, 3))},
		ChainID:            c.chainID,
		Height:             h,
		Time:               bt.UTC(),
		LastBlockID:        c.lastID,
		DataHash:           cmttypes.Txs{}.Hash(),
		ValidatorsHash:     curSet.Hash(),
		NextValidatorsHash: nextSet.Hash(),
		ConsensusHash:      fill(byte(r.Intn(256))),
		AppHash:            c.appHash,
		LastResultsHash:    fill(byte(r.Intn(256))),
		EvidenceHash:       cmttypes.EvidenceList{}.Hash(),
		ProposerAddress:    curSet.Validators[int(h)%len(curSet.Validators)].Address,
	}
	if r.Chance(1, 3) {
		header.DataHash = fill(byte(r.Intn(256)))
	}
	if c.lastComm != nil {
		header.LastCommitHash = c.lastComm.Hash()
	}
	blockID := cmttypes.BlockID{Hash: header.Hash(), PartSetHeader: cmttypes.PartSetHeader{Total: uint32(r.PickInt(1, 1, 2, 3, 100, 127)), Hash: fill(byte(r.Intn(256)))}}

	// state changes of this block: oracle results accumulate (the IAVL tree changes shape)
	ctx := c.app.BaseApp.NewUncachedContext(false, cmtproto.Header{Height: h, Time: bt, ChainID: c.chainID})
	nres := r.PickInt(0, 1, 1, 2, 5)
	for i := 0; i < nres; i++ {
		c.count++
		id := c.count
		rs := oracletypes.NewResult(string(r.Bytes(r.Range(0, 10))), oracletypes.OracleScriptID(r.Range(1, 9)), r.Bytes(r.Range(0, 40)), uint64(r.Range(1, 16)), uint64(r.Range(1, 16)),
			oracletypes.RequestID(id), uint64(r.Range(0, 16)), bt.Unix()-int64(r.Range(0, 100)), bt.Unix(), oracletypes.ResolveStatus(r.Range(1, 3)), r.Bytes(r.Range(0, 70)))
		c.app.OracleKeeper.SetResult(ctx, oracletypes.RequestID(id), rs)
		c.results = append(c.results, id)
	}
	c.app.OracleKeeper.SetRequestCount(ctx, c.count)
	c.app.OracleKeeper.SetRequestLastExpired(ctx, oracletypes.RequestID(c.count))

	res, err := c.app.FinalizeBlock(&abci.RequestFinalizeBlock{Height: h, Time: bt, Hash: blockID.Hash})
	fx.Must(err)
	_, err = c.app.Commit()
	fx.Must(err)

	byAddr := map[string]secp256k1.PrivKey{}
	for _, k := range curVals {
		byAddr[string(k.PubKey().Address())] = k
	}
	round := int32(r.PickInt(0, 0, 0, 1, 2, 300))
	sigs := make([]cmttypes.CommitSig, len(curSet.Validators))
	signers := map[string]bool{}
	// at most a third may be absent / nil so that the commit stays valid
	maxOut := (len(curSet.Validators) - 1) / 3
	out := 0
	for i, v := range curSet.Validators {
		flag := cmttypes.BlockIDFlagCommit
		if out < maxOut && r.Chance(1, 3) {
			out++
			flag = cmttypes.BlockIDFlagAbsent
			if r.Bool() {
				flag = cmttypes.BlockIDFlagNil
			}
		}
		if flag == cmttypes.BlockIDFlagAbsent {
			sigs[i] = cmttypes.NewCommitSigAbsent()
			continue
		}
		ts := bt.Add(time.Duration(r.Range(0, 3)) * time.Second)
		if !r.Chance(1, 4) {
			ts = ts.Add(time.Duration(r.Range(1, 999_999_999)))
		}
		voteBlockID := blockID
		if flag == cmttypes.BlockIDFlagNil {
			voteBlockID = cmttypes.BlockID{}
		}
		vote := &cmttypes.Vote{Type: cmtproto.PrecommitType, Height: h, Round: round, BlockID: voteBlockID, Timestamp: ts.UTC(), ValidatorAddress: v.Address, ValidatorIndex: int32(i)}
		key := byAddr[string(v.Address)]
		sig, err := key.Sign(cmttypes.VoteSignBytes(c.chainID, vote.ToProto()))
		fx.Must(err)
		sigs[i] = cmttypes.CommitSig{BlockIDFlag: flag, ValidatorAddress: v.Address, Timestamp: ts.UTC(), Signature: sig}
		if flag == cmttypes.BlockIDFlagCommit {
			signers[string(ethAddrOf(key))] = true
		}
	}
	commit := &cmttypes.Commit{Height: h, Round: round, BlockID: blockID, Signatures: sigs}
	fx.Must(curSet.VerifyCommit(c.chainID, blockID, h, commit))
	c.headers[h] = &cmttypes.SignedHeader{Header: header, Commit: commit}
	c.signers[h] = signers
	c.valsAt[h] = curVals
	c.height, c.appHash, c.lastID, c.lastComm, c.vals = h, res.AppHash, blockID, commit, nextVals
}

type mockRPC struct {
	client.CometRPC
	c *chain
}

func (m mockRPC) Commit(_ context.Context, height *int64) (*coretypes.ResultCommit, error) {
	h := m.c.height
	if height != nil {
		h = *height
	}
	sh, ok := m.c.headers[h]
	if !ok {
		return nil, fmt.Errorf("no commit at height %d", h)
	}
	return &coretypes.ResultCommit{SignedHeader: *sh, CanonicalCommit: true}, nil
}

func (m mockRPC) ABCIQueryWithOptions(ctx context.Context, path string, data cmtbytes.HexBytes, opts rpcclient.ABCIQueryOptions) (*coretypes.ResultABCIQuery, error) {
	res, err := m.c.app.Query(ctx, &abci.RequestQuery{Path: path, Data: data, Height: opts.Height, Prove: opts.Prove})
	if err != nil {
		return nil, err
	}
	if res.Code != 0 {
		return nil, fmt.Errorf("query failed: %s", res.Log)
	}
	return &coretypes.ResultABCIQuery{Response: *res}, nil
}

func (c *chain) server(height int64) proof.ServiceServer {
	ctx := client.Context{}.WithClient(mockRPC{c: c}).WithHeight(height).WithChainID(c.chainID)
	return proof.NewProofServer(ctx, config.Config{})
}

func epOut(ep *ics23.ExistenceProof) fx.M {
	if ep == nil {
		return nil
	}
	path := []any{}
	for _, st := range ep.Path {
		path = append(path, []string{hx(st.Prefix), hx(st.Suffix)})
	}
	lp := ""
	if ep.Leaf != nil {
		lp = hx(ep.Leaf.Prefix)
	}
	return fx.M{"key": hx(ep.Key), "value": hx(ep.Value), "leafPrefix": lp, "path": path}
}

// rawProofs repeats the store query the service makes and decodes the two ICS-23 existence proofs
func (c *chain) rawProofs(key []byte, height int64) (fx.M, fx.M) {
	res, err := c.app.Query(context.Background(), &abci.RequestQuery{Path: "/store/oracle/key", Data: key, Height: height, Prove: true})
	fx.Must(err)
	var iavl, ms fx.M
	for _, op := range res.ProofOps.Ops {
		cp := &ics23.CommitmentProof{}
		fx.Must(cp.Unmarshal(op.Data))
		switch op.Type {
		case storetypes.ProofOpIAVLCommitment:
			iavl = epOut(cp.GetExist())
		case storetypes.ProofOpSimpleMerkleCommitment:
			ms = epOut(cp.GetExist())
		}
	}
	return iavl, ms
}

func (c *chain) headerOut(h int64) (fx.M, fx.M, []any) {
	sh := c.headers[h]
	hd := sh.Header
	header := fx.M{"vb": fx.U(hd.Version.Block), "va": fx.U(hd.Version.App), "chainID": hx([]byte(hd.ChainID)), "height": fx.I(hd.Height),
		"sec": fx.I(hd.Time.Unix()), "nanos": hd.Time.Nanosecond(), "lbHash": hx(hd.LastBlockID.Hash), "lbTotal": hd.LastBlockID.PartSetHeader.Total,
		"lbPsh": hx(hd.LastBlockID.PartSetHeader.Hash), "lastCommitHash": hx(hd.LastCommitHash), "dataHash": hx(hd.DataHash), "valsHash": hx(hd.ValidatorsHash),
		"nextValsHash": hx(hd.NextValidatorsHash), "consHash": hx(hd.ConsensusHash), "appHash": hx(hd.AppHash), "lastResHash": hx(hd.LastResultsHash),
		"evHash": hx(hd.EvidenceHash), "proposer": hx(hd.ProposerAddress)}
	sigs := []any{}
	for _, s := range sh.Commit.Signatures {
		sigs = append(sigs, []any{int(s.BlockIDFlag), hx(s.ValidatorAddress), fx.I(s.Timestamp.Unix()), s.Timestamp.Nanosecond(), hx(s.Signature)})
	}
	commit := fx.M{"round": sh.Commit.Round, "hash": hx(sh.Commit.BlockID.Hash), "total": sh.Commit.BlockID.PartSetHeader.Total, "psh": hx(sh.Commit.BlockID.PartSetHeader.Hash), "sigs": sigs}
	vals := []any{}
	keys := append([]secp256k1.PrivKey{}, c.valsAt[h]...)
	sort.Slice(keys, func(i, j int) bool { return bytes.Compare(ethAddrOf(keys[i]), ethAddrOf(keys[j])) < 0 })
	for _, k := range keys {
		a := ethAddrOf(k)
		vals = append(vals, []any{hx(a), 10, c.signers[h][string(a)]})
	}
	return header, commit, vals
}

func (c *chain) storesAt(version int64) []any {
	rs := c.app.CommitMultiStore().(*rootmulti.Store)
	ci, err := rs.GetCommitInfo(version)
	fx.Must(err)
	out := []any{}
	infos := append([]storetypes.StoreInfo{}, ci.StoreInfos...)
	sort.Slice(infos, func(i, j int) bool { return infos[i].Name < infos[j].Name })
	for _, si := range infos {
		out = append(out, []string{si.Name, hx(si.CommitId.Hash)})
	}
	return out
}

func relayOut(br proof.BlockRelayProof) fx.M {
	m := br.MultiStoreProof
	p := br.BlockHeaderMerkleParts
	sigs := []any{}
	for _, s := range br.Signatures {
		sigs = append(sigs, []any{hx(s.R), hx(s.S), s.V, hx(s.EncodedTimestamp)})
	}
	return fx.M{"ms": []string{hx(m.OracleIAVLStateHash), hx(m.MintStoreMerkleHash), hx(m.ParamsToRestakeStoresMerkleHash), hx(m.RollingseedToTransferStoresMerkleHash),
		hx(m.TssToUpgradeStoresMerkleHash), hx(m.AuthToIcahostStoresMerkleHash)},
		"parts": fx.M{"versionChain": hx(p.VersionAndChainIdHash), "height": fx.U(p.Height), "sec": fx.U(p.TimeSecond), "nanos": p.TimeNanoSecond, "lastBlockOther": hx(p.LastBlockIdAndOther),
			"nextValsCons": hx(p.NextValidatorHashAndConsensusHash), "lastRes": hx(p.LastResultsHash), "evProposer": hx(p.EvidenceAndProposerHash)},
		"common": []string{hx(br.CommonEncodedVotePart.SignedDataPrefix), hx(br.CommonEncodedVotePart.SignedDataSuffix)}, "sigs": sigs}
}

func pathsOut(ps []proof.IAVLMerklePath) []any {
	out := []any{}
	for _, p := range ps {
		out = append(out, []any{p.IsDataOnRight, p.SubtreeHeight, fx.U(p.SubtreeSize), fx.U(p.SubtreeVersion), hx(p.SiblingHash)})
	}
	return out
}

func (c *chain) proofOp(tr *fx.Trace, height int64, rid uint64, count bool) {
	header, commit, vals := c.headerOut(height)
	m := fx.M{"op": "proof", "height": fx.I(height), "header": header, "commit": commit, "vals": vals, "stores": c.storesAt(height - 1)}
	var key []byte
	if count {
		key = oracletypes.RequestCountStoreKey
		m["kind"] = "count"
	} else {
		key = oracletypes.ResultStoreKey(oracletypes.RequestID(rid))
		m["kind"] = "result"
		m["rid"] = fx.U(rid)
	}
	iavl, ms := c.rawProofs(key, height-1)
	m["iavl"], m["msep"] = iavl, ms
	var out, evm fx.M
	var eerr error
	errS := fx.Try(func() error {
		if count {
			resp, err := c.server(height).RequestCountProof(context.Background(), &proof.RequestCountProofRequest{})
			if err != nil {
				return err
			}
			p := resp.Result.Proof
			out = relayOut(p.BlockRelayProof)
			out["count"] = fx.U(p.CountProof.Count)
			out["version"] = fx.U(p.CountProof.Version)
			out["paths"] = pathsOut(p.CountProof.MerklePaths)
			out["blockHeight"] = fx.U(p.BlockHeight)
			evm, eerr = evmOut(resp.Result.EvmProofBytes, true)
			return nil
		}
		resp, err := c.server(height).Proof(context.Background(), &proof.ProofRequest{RequestId: rid, Height: height})
		if err != nil {
			return err
		}
		p := resp.Result.Proof
		out = relayOut(p.BlockRelayProof)
		out["result"] = hx(oracletypes.ModuleCdc.MustMarshal(&p.OracleDataProof.Result))
		out["resultRid"] = fx.U(uint64(p.OracleDataProof.Result.RequestID))
		out["version"] = fx.U(p.OracleDataProof.Version)
		out["paths"] = pathsOut(p.OracleDataProof.MerklePaths)
		out["blockHeight"] = fx.U(p.BlockHeight)
		evm, eerr = evmOut(resp.Result.EvmProofBytes, false)
		return nil
	})
	if out == nil {
		out = fx.M{}
	}
	out["err"] = errS
	if errS == "" {
		// what the bridge contract reads from the EVM proof bytes, in the shape of `out`
		if eerr != nil {
			out["evm"] = fx.M{"err": eerr.Error()}
		} else {
			evm["err"] = ""
			out["evm"] = evm
		}
	}
	m["out"] = out
	tr.Op(m)
}

// multiProofOp asks for ONE proof of several results (MultiProof).  Every item is written as its own `proof` line — the
// shared block relay part plus that item's data proof, next to the raw store proof of that item's key — so that the driver
// judges each exactly like a single proof; the EVM bytes are decoded per item as well.
func (c *chain) multiProofOp(tr *fx.Trace, height int64, rids []uint64) {
	header, commit, vals := c.headerOut(height)
	resp, err := c.server(height).MultiProof(context.Background(), &proof.MultiProofRequest{RequestIds: rids})
	var evms []fx.M
	var eerr error
	if err == nil {
		evms, eerr = evmOutMulti(resp.Result.EvmProofBytes)
		if eerr == nil && len(evms) != len(rids) {
			eerr = fmt.Errorf("evm proof carries %d data proofs for %d ids", len(evms), len(rids))
		}
	}
	for i, rid := range rids {
		m := fx.M{"op": "proof", "height": fx.I(height), "header": header, "commit": commit, "vals": vals, "stores": c.storesAt(height - 1),
			"kind": "result", "rid": fx.U(rid), "multi": len(rids), "item": i}
		m["iavl"], m["msep"] = c.rawProofs(oracletypes.ResultStoreKey(oracletypes.RequestID(rid)), height-1)
		out := fx.M{}
		if err != nil {
			out["err"] = err.Error()
		} else {
			p := resp.Result.Proof
			out = relayOut(p.BlockRelayProof)
			d := p.OracleDataMultiProof[i]
			out["result"] = hx(oracletypes.ModuleCdc.MustMarshal(&d.Result))
			out["resultRid"] = fx.U(uint64(d.Result.RequestID))
			out["version"] = fx.U(d.Version)
			out["paths"] = pathsOut(d.MerklePaths)
			out["blockHeight"] = fx.U(p.BlockHeight)
			out["err"] = ""
			if eerr != nil {
				out["evm"] = fx.M{"err": eerr.Error()}
			} else {
				evms[i]["err"] = ""
				out["evm"] = evms[i]
			}
		}
		m["out"] = out
		tr.Op(m)
	}
}

func runCase(app *fx.App, tr *fx.Trace, r *fx.Rng, c *chain) {
	tr.Reset(fx.M{"chainID": hx([]byte(c.chainID))})
	nb := r.Range(2, 6)
	for i := 0; i < nb; i++ {
		c.produce()
	}
	// proofs for the latest blocks (the store keeps recent versions)
	for i := 0; i < 4; i++ {
		h := c.height - int64(r.Intn(2))
		if h < 3 {
			h = c.height
		}
		if r.Chance(1, 3) || len(c.results) == 0 {
			c.proofOp(tr, h, 0, true)
			continue
		}
		// a result that existed at version h-1
		rid := c.results[r.Intn(len(c.results))]
		iavl, _ := c.rawProofs(oracletypes.ResultStoreKey(oracletypes.RequestID(rid)), h-1)
		if iavl == nil {
			continue
		}
		c.proofOp(tr, h, rid, false)
	}
	// one proof for several results written in different blocks (they carry different IAVL versions), in any order
	if len(c.results) >= 2 {
		h := c.height
		var rids []uint64
		for _, k := range r.Perm(len(c.results)) {
			rid := c.results[k]
			if iavl, _ := c.rawProofs(oracletypes.ResultStoreKey(oracletypes.RequestID(rid)), h-1); iavl != nil && len(rids) < 4 {
				rids = append(rids, rid)
			}
		}
		if len(rids) >= 2 {
			c.multiProofOp(tr, h, rids)
			tr.Tag("multi-proof")
		}
	}
}

func main() {
	a := fx.ParseArgs()
	app := fx.NewApp()
	defer app.Close()
	tr := fx.NewTrace(a.Out)
	n := a.Cases
	if n == 0 {
		n = 30
	}
	r := fx.NewRng(a.Seed)
	c := &chain{app: app, chainID: bandtesting.ChainID, r: r, headers: map[int64]*cmttypes.SignedHeader{}, signers: map[int64]map[string]bool{},
		valsAt: map[int64][]secp256k1.PrivKey{}, now: time.Unix(1_700_000_000, 0)}
	c.height = app.LastBlockHeight()
	c.appHash = app.LastCommitID().Hash
	c.vals = c.newKeys(r.PickInt(1, 3, 4))
	_ = sdk.AccAddress{}
	for i := 0; i < n; i++ {
		if i == n*2/3 {
			// the last third of the chain runs in the year 2300: Unix seconds that no longer fit 32 bits, and times whose
			// nanosecond count overflows int64 (time.Time.UnixNano is undefined there)
			c.now = time.Unix(10_413_792_000, 0)
		}
		runCase(app, tr, r, c)
	}
	tr.Close()
	tr.WriteStats(a.Stats, nil)
}
