package main

// Independent reader of the service's `EvmProofBytes`: the byte layout is the one the bridge contract decodes
// (Bridge.relayAndVerify: abi.decode(data, (bytes, bytes)); relayBlock(multiStore, merkleParts, commonEncodedVotePart,
// signatures); verifyOracleData(blockHeight, result, version, merklePaths)).  The types below are written out here, not
// taken from the repository, so a change of the service's packing shows up as a decoding failure or as different values.

import (
	"fmt"
	"math/big"
	"reflect"

	"github.com/ethereum/go-ethereum/accounts/abi"

	oracletypes "github.com/bandprotocol/chain/v3/x/oracle/types"

	"verifharness/internal/fx"
)

func tupleT(kind string, comps ...[2]string) abi.Type {
	var cs []abi.ArgumentMarshaling
	for _, c := range comps {
		cs = append(cs, abi.ArgumentMarshaling{Name: c[0], Type: c[1]})
	}
	t, err := abi.NewType(kind, "", cs)
	fx.Must(err)
	return t
}

func plainT(s string) abi.Type {
	t, err := abi.NewType(s, "", nil)
	fx.Must(err)
	return t
}

var (
	pathComps = [][2]string{{"isDataOnRight", "bool"}, {"subtreeHeight", "uint8"}, {"subtreeSize", "uint256"}, {"subtreeVersion", "uint256"}, {"siblingHash", "bytes32"}}
	outerArgs = abi.Arguments{{Type: plainT("bytes")}, {Type: plainT("bytes")}}
	relayArgs = abi.Arguments{
		{Type: tupleT("tuple", [2]string{"oracleIAVLStateHash", "bytes32"}, [2]string{"mintStoreMerkleHash", "bytes32"}, [2]string{"paramsToRestakeStoresMerkleHash", "bytes32"},
			[2]string{"rollingseedToTransferStoresMerkleHash", "bytes32"}, [2]string{"tssToUpgradeStoresMerkleHash", "bytes32"}, [2]string{"authToIcahostStoresMerkleHash", "bytes32"})},
		{Type: tupleT("tuple", [2]string{"versionAndChainIdHash", "bytes32"}, [2]string{"height", "uint64"}, [2]string{"timeSecond", "uint64"}, [2]string{"timeNanoSecond", "uint32"},
			[2]string{"lastBlockIdAndOther", "bytes32"}, [2]string{"nextValidatorHashAndConsensusHash", "bytes32"}, [2]string{"lastResultsHash", "bytes32"}, [2]string{"evidenceAndProposerHash", "bytes32"})},
		{Type: tupleT("tuple", [2]string{"signedDataPrefix", "bytes"}, [2]string{"signedDataSuffix", "bytes"})},
		{Type: tupleT("tuple[]", [2]string{"r", "bytes32"}, [2]string{"s", "bytes32"}, [2]string{"v", "uint8"}, [2]string{"encodedTimestamp", "bytes"})},
	}
	verifyArgs = abi.Arguments{{Type: plainT("uint256")},
		{Type: tupleT("tuple", [2]string{"clientID", "string"}, [2]string{"oracleScriptID", "uint64"}, [2]string{"params", "bytes"}, [2]string{"askCount", "uint64"}, [2]string{"minCount", "uint64"},
			[2]string{"requestID", "uint64"}, [2]string{"ansCount", "uint64"}, [2]string{"requestTime", "uint64"}, [2]string{"resolveTime", "uint64"}, [2]string{"resolveStatus", "uint8"}, [2]string{"result", "bytes"})},
		{Type: plainT("uint256")}, {Type: tupleT("tuple[]", pathComps...)}}
	countArgs = abi.Arguments{{Type: plainT("uint256")}, {Type: plainT("uint256")}, {Type: plainT("uint256")}, {Type: tupleT("tuple[]", pathComps...)}}
)

// flat turns a decoded ABI value into nested lists of hex strings / decimal strings / numbers / booleans
func flat(v reflect.Value) any {
	if v.Kind() == reflect.Interface || v.Kind() == reflect.Ptr {
		if b, ok := v.Interface().(*big.Int); ok {
			return fx.U(b.Uint64())
		}
		return flat(v.Elem())
	}
	switch v.Kind() {
	case reflect.Struct:
		var l []any
		for i := 0; i < v.NumField(); i++ {
			l = append(l, flat(v.Field(i)))
		}
		return l
	case reflect.Slice, reflect.Array:
		if v.Type().Elem().Kind() == reflect.Uint8 {
			b := make([]byte, v.Len())
			for i := range b {
				b[i] = byte(v.Index(i).Uint())
			}
			return hx(b)
		}
		l := []any{}
		for i := 0; i < v.Len(); i++ {
			l = append(l, flat(v.Index(i)))
		}
		return l
	case reflect.Bool:
		return v.Bool()
	case reflect.String:
		return v.String()
	case reflect.Uint8, reflect.Uint16, reflect.Uint32:
		return v.Uint()
	case reflect.Uint64:
		return fx.U(v.Uint())
	}
	panic(fmt.Sprintf("flat: unexpected kind %s", v.Kind()))
}

func unpackFlat(args abi.Arguments, data []byte) ([]any, error) {
	vals, err := args.Unpack(data)
	if err != nil {
		return nil, err
	}
	var l []any
	for _, v := range vals {
		l = append(l, flat(reflect.ValueOf(v)))
	}
	return l, nil
}

// evmOut decodes the EVM proof bytes into the same shape as the `out` object built from the protobuf answer
func evmOut(data []byte, count bool) (out fx.M, err error) {
	defer func() {
		if r := recover(); r != nil {
			out, err = nil, fmt.Errorf("evm decode: %v", r)
		}
	}()
	outer, err := outerArgs.Unpack(data)
	if err != nil {
		return nil, err
	}
	relay, err := unpackFlat(relayArgs, outer[0].([]byte))
	if err != nil {
		return nil, err
	}
	p := relay[1].([]any)
	sigs := []any{}
	for _, s := range relay[3].([]any) {
		sigs = append(sigs, s)
	}
	out = fx.M{"ms": relay[0], "parts": fx.M{"versionChain": p[0], "height": p[1], "sec": p[2], "nanos": p[3], "lastBlockOther": p[4], "nextValsCons": p[5], "lastRes": p[6], "evProposer": p[7]},
		"common": relay[2], "sigs": sigs}
	if count {
		d, err := unpackFlat(countArgs, outer[1].([]byte))
		if err != nil {
			return nil, err
		}
		out["blockHeight"], out["count"], out["version"], out["paths"] = d[0], d[1], d[2], d[3]
		return out, nil
	}
	vals, err := verifyArgs.Unpack(outer[1].([]byte))
	if err != nil {
		return nil, err
	}
	rv := reflect.ValueOf(vals[1])
	u := func(i int) uint64 { return rv.Field(i).Uint() }
	res := oracletypes.Result{ClientID: rv.Field(0).String(), OracleScriptID: oracletypes.OracleScriptID(u(1)), Calldata: rv.Field(2).Bytes(), AskCount: u(3), MinCount: u(4),
		RequestID: oracletypes.RequestID(u(5)), AnsCount: u(6), RequestTime: int64(u(7)), ResolveTime: int64(u(8)), ResolveStatus: oracletypes.ResolveStatus(u(9)), Result: rv.Field(10).Bytes()}
	out["result"] = hx(oracletypes.ModuleCdc.MustMarshal(&res))
	out["resultRid"] = fx.U(uint64(res.RequestID))
	out["blockHeight"] = flat(reflect.ValueOf(vals[0]))
	out["version"] = flat(reflect.ValueOf(vals[2]))
	out["paths"] = flat(reflect.ValueOf(vals[3]))
	return out, nil
}

// evmOutMulti decodes the EVM bytes of a MultiProof (abi.decode(data, (bytes, bytes[]))): one `out`-shaped object per item
func evmOutMulti(data []byte) (outs []fx.M, err error) {
	defer func() {
		if r := recover(); r != nil {
			outs, err = nil, fmt.Errorf("evm decode: %v", r)
		}
	}()
	outer, err := abi.Arguments{{Type: plainT("bytes")}, {Type: plainT("bytes[]")}}.Unpack(data)
	if err != nil {
		return nil, err
	}
	for _, item := range outer[1].([][]byte) {
		single, err := outerArgs.Pack(outer[0].([]byte), item)
		if err != nil {
			return nil, err
		}
		o, err := evmOut(single, false)
		if err != nil {
			return nil, err
		}
		outs = append(outs, o)
	}
	return outs, nil
}
