// c19 drives the REAL yoda request handler (yoda.handleRequest through the verif hook) with an injected node (ABCI
// queries answered from maps), an injected executor (scripted outcomes and delays) and an in-memory keyring, several
// requests concurrently, and has the REAL chain validate every queued report (MsgReportData.ValidateBasic and
// OracleKeeper.CheckValidReport).  A panic inside one of yoda's goroutines kills the process, so the cases run in a
// child process; the parent records a crash as the observation of the case in flight and restarts the child.
package main

import (
	"bufio"
	"bytes"
	"context"
	"encoding/hex"
	"encoding/json"
	"fmt"
	"os"
	"os/exec"
	"path/filepath"
	"sort"
	"sync"
	"time"

	abci "github.com/cometbft/cometbft/abci/types"
	cmtbytes "github.com/cometbft/cometbft/libs/bytes"
	rpcclient "github.com/cometbft/cometbft/rpc/client"
	ctypes "github.com/cometbft/cometbft/rpc/core/types"
	sdk "github.com/cosmos/cosmos-sdk/types"

	"github.com/bandprotocol/chain/v3/pkg/filecache"
	bandtesting "github.com/bandprotocol/chain/v3/testing"
	oraclekeeper "github.com/bandprotocol/chain/v3/x/oracle/keeper"
	"github.com/bandprotocol/chain/v3/x/oracle/types"
	"github.com/bandprotocol/chain/v3/yoda"
	"github.com/bandprotocol/chain/v3/yoda/executor"

	"verifharness/internal/fx"
)

type rawSpec struct {
	EID      uint64 `json:"eid"`
	DS       uint64 `json:"ds"`
	Calldata string `json:"calldata"`
	Exec     string `json:"exec"` // ok | error
	Code     uint32 `json:"code"`
	Output   string `json:"output"` // hex
	DelayMs  int    `json:"delayMs"`
}

type dsSpec struct {
	ID        uint64 `json:"id"`
	FileLen   int    `json:"fileLen"`
	Cached    bool   `json:"cached"`    // already in yoda's file cache
	NodeHas   bool   `json:"nodeHas"`   // the node serves the file
	HashFails bool   `json:"hashFails"` // the node fails the data-source metadata query
	// the cache directory holds a file of the right NAME whose content is cut short (a crash while writing, a damaged disk):
	// the integrity check of the cache refuses it and the executable is fetched from the node like an uncached one
	CacheDamaged bool `json:"cacheDamaged"`
	Fill         byte `json:"fill"`
}

type reqSpec struct {
	RID      uint64    `json:"rid"`
	Selected bool      `json:"selected"`
	Raws     []rawSpec `json:"raws"`
}

type caseSpec struct {
	Idx  int       `json:"idx"`
	DS   []dsSpec  `json:"ds"`
	Reqs []reqSpec `json:"reqs"`
	// the requests arrive as the events of ONE transaction (yoda's handleTransaction), not one by one
	ViaTx bool `json:"viaTx"`
	// after the requests above are done the owner of data source EditDS replaces its executable (MsgEditDataSource), and
	// the running daemon gets one more request that uses it: the report must come from the NEW executable
	EditDS uint64   `json:"editDS"`
	After  *reqSpec `json:"after"`
}

func fileOf(d dsSpec) []byte {
	b := make([]byte, d.FileLen)
	for i := range b {
		b[i] = d.Fill + byte(i)
	}
	if len(b) > 0 {
		b[0] = byte(d.ID) // distinct files for distinct data sources
	}
	return b
}

func genCase(r *fx.Rng, idx int) caseSpec {
	c := caseSpec{Idx: idx}
	nds := r.Range(1, 4)
	for i := 1; i <= nds; i++ {
		d := dsSpec{ID: uint64(i), FileLen: r.PickInt(1, 5, 31, 32, 33, 64, 200, 1000), Cached: r.Chance(1, 2), NodeHas: !r.Chance(1, 6), HashFails: r.Chance(1, 25), Fill: byte(r.Intn(200))}
		if !d.Cached && d.FileLen >= 2 && r.Chance(1, 4) {
			d.CacheDamaged = true
		}
		c.DS = append(c.DS, d)
	}
	nreq := r.PickInt(1, 1, 2, 3, 6)
	for q := 0; q < nreq; q++ {
		rq := reqSpec{RID: uint64(10*idx + q + 1), Selected: !r.Chance(1, 6)}
		nraw := r.PickInt(1, 1, 2, 3, 5, 9)
		p := r.Perm(20)
		for k := 0; k < nraw; k++ {
			rs := rawSpec{EID: uint64(p[k] + 1), DS: uint64(r.Range(1, nds)), Calldata: fmt.Sprintf("cd-%d-%d", q, k), Exec: "ok"}
			switch r.Intn(6) {
			case 0:
				rs.Exec = "error"
			case 1:
				rs.Code = uint32(r.PickInt(1, 2, 3, 126, 254, 255))
			}
			rs.Output = hex.EncodeToString(r.Bytes(r.PickInt(0, 1, 10, 100, 512)))
			rs.DelayMs = r.PickInt(0, 0, 1, 3, 8)
			rq.Raws = append(rq.Raws, rs)
		}
		c.Reqs = append(c.Reqs, rq)
	}
	c.ViaTx = r.Chance(1, 3)
	if r.Chance(1, 3) {
		c.EditDS = uint64(r.Range(1, nds))
		rq := reqSpec{RID: uint64(10*idx + 9), Selected: true}
		for k := 0; k < r.Range(1, 2); k++ {
			rs := rawSpec{EID: uint64(k + 1), DS: c.EditDS, Calldata: fmt.Sprintf("cd-after-%d", k), Exec: "ok", Code: uint32(r.PickInt(0, 0, 1))}
			rs.Output = hex.EncodeToString(r.Bytes(r.PickInt(1, 10, 100)))
			rq.Raws = append(rq.Raws, rs)
		}
		c.After = &rq
	}
	return c
}

// ---- child -------------------------------------------------------------------------------------------
type fakeNode struct {
	rpcclient.Client
	mu    sync.Mutex
	store map[string][]byte
	files map[string][]byte
	fail  map[string]bool
	cdc   interface {
		MustUnmarshal([]byte, interface{ Unmarshal([]byte) error })
	}
	app *fx.App
}

func (f *fakeNode) ABCIQuery(_ context.Context, path string, data cmtbytes.HexBytes) (*ctypes.ResultABCIQuery, error) {
	f.mu.Lock()
	defer f.mu.Unlock()
	switch path {
	case fmt.Sprintf("/store/%s/key", types.StoreKey):
		if f.fail[string(data)] {
			return nil, fmt.Errorf("node error")
		}
		val, ok := f.store[string(data)]
		if !ok {
			return nil, fmt.Errorf("key not found")
		}
		return &ctypes.ResultABCIQuery{Response: abci.ResponseQuery{Value: val}}, nil
	case "/band.oracle.v1.Query/Data":
		var q types.QueryDataRequest
		f.app.AppCodec().MustUnmarshal(data, &q)
		file, ok := f.files[q.DataHash]
		if !ok {
			return nil, fmt.Errorf("file %s not found", q.DataHash)
		}
		bz := f.app.AppCodec().MustMarshal(&types.QueryDataResponse{Data: file})
		return &ctypes.ResultABCIQuery{Response: abci.ResponseQuery{Value: bz}}, nil
	}
	return nil, fmt.Errorf("unexpected query path %s", path)
}

type scripted struct {
	mu   sync.Mutex
	byCD map[string]rawSpec
	// the data source files as registered on chain: an executor handed anything else cannot run it
	files map[uint64][]byte
}

func (s *scripted) Exec(code []byte, arg string, _ interface{}) (executor.ExecResult, error) {
	s.mu.Lock()
	rs := s.byCD[arg]
	s.mu.Unlock()
	if rs.DelayMs > 0 {
		time.Sleep(time.Duration(rs.DelayMs) * time.Millisecond)
	}
	if rs.Exec == "error" {
		return executor.ExecResult{}, executor.ErrRestNotOk
	}
	if want, ok := s.files[rs.DS]; ok && !bytes.Equal(code, want) {
		// what a runtime answers when it is handed something that is not the data source's executable
		return executor.ExecResult{Output: []byte("exec format error"), Code: 126, Version: "v1"}, nil
	}
	out, _ := hex.DecodeString(rs.Output)
	return executor.ExecResult{Output: out, Code: rs.Code, Version: "v1"}, nil
}

func child(specPath string, from int) {
	app := fx.NewApp()
	defer app.Close()
	bz, err := os.ReadFile(specPath)
	fx.Must(err)
	var cases []caseSpec
	fx.Must(json.Unmarshal(bz, &cases))
	w := bufio.NewWriter(os.Stdout)
	val := bandtesting.Validators[0].ValAddress
	other := bandtesting.Validators[1].ValAddress
	for _, cs := range cases {
		if cs.Idx < from {
			continue
		}
		fmt.Fprintf(w, "START %d\n", cs.Idx)
		w.Flush()
		ctx, _ := app.Ctx.CacheContext()
		node := &fakeNode{store: map[string][]byte{}, files: map[string][]byte{}, fail: map[string]bool{}, app: app}
		sc := &scripted{byCD: map[string]rawSpec{}, files: map[uint64][]byte{}}
		dir, err := os.MkdirTemp("", "yodacache")
		fx.Must(err)
		vc, err := yoda.NewVerifContext(app.BandApp, node, bandtesting.ChainID, val, 2, sc, dir, 1)
		fx.Must(err)
		cache := filecache.New(dir)
		for _, d := range cs.DS {
			file := fileOf(d)
			sc.files[d.ID] = file
			name := filecache.GetFilename(file)
			ds := types.NewDataSource(bandtesting.Owner.Address, fmt.Sprintf("ds%d", d.ID), "", name, sdk.NewCoins(), bandtesting.Treasury.Address)
			app.OracleKeeper.SetDataSource(ctx, types.DataSourceID(d.ID), ds)
			key := string(types.DataSourceStoreKey(types.DataSourceID(d.ID)))
			node.store[key] = app.AppCodec().MustMarshal(&ds)
			if d.HashFails {
				node.fail[key] = true
			}
			if d.NodeHas {
				node.files[name] = file
			}
			if d.Cached {
				cache.AddFile(file)
			} else if d.CacheDamaged && len(file) >= 2 {
				fx.Must(os.WriteFile(filepath.Join(dir, name), file[:len(file)/2], 0o600))
			}
		}
		var wg sync.WaitGroup
		for _, rq := range cs.Reqs {
			var raws []types.RawRequest
			for _, rs := range rq.Raws {
				raws = append(raws, types.NewRawRequest(types.ExternalID(rs.EID), types.DataSourceID(rs.DS), []byte(rs.Calldata)))
				sc.byCD[rs.Calldata] = rs
			}
			vals := []sdk.ValAddress{other}
			if rq.Selected {
				vals = []sdk.ValAddress{other, val}
			}
			req := types.NewRequest(1, []byte("calldata"), vals, 1, 1, time.Unix(1, 0), "client", raws, nil, 100000, types.ENCODER_UNSPECIFIED,
				bandtesting.Alice.Address.String(), sdk.NewCoins())
			app.OracleKeeper.SetRequest(ctx, types.RequestID(rq.RID), req)
			node.store[string(types.RequestStoreKey(types.RequestID(rq.RID)))] = app.AppCodec().MustMarshal(&req)
		}
		var msgs []*types.MsgReportData
		hung := false
		if cs.ViaTx {
			// one successful transaction whose result carries a `request` event per request (with the raw_request events
			// of a real MsgRequestData in between); handleTransaction starts the handlers itself, so wait for as many
			// reports as requests select this validator
			var evs []abci.Event
			want := 0
			for _, rq := range cs.Reqs {
				evs = append(evs, abci.Event{Type: types.EventTypeRequest, Attributes: []abci.EventAttribute{
					{Key: types.AttributeKeyID, Value: fmt.Sprint(rq.RID)}, {Key: "client_id", Value: "client"}}})
				for _, rs := range rq.Raws {
					evs = append(evs, abci.Event{Type: types.EventTypeRawRequest, Attributes: []abci.EventAttribute{
						{Key: types.AttributeKeyDataSourceID, Value: fmt.Sprint(rs.DS)}, {Key: types.AttributeKeyExternalID, Value: fmt.Sprint(rs.EID)}}})
				}
				if rq.Selected {
					want++
				}
			}
			vc.HandleTransaction(abci.TxResult{Height: 5, Tx: []byte("tx"), Result: abci.ExecTxResult{Code: 0, Events: evs}})
			deadline := time.Now().Add(8 * time.Second)
			for len(msgs) < want && time.Now().Before(deadline) {
				msgs = append(msgs, vc.PendingReports()...)
				time.Sleep(time.Millisecond)
			}
			time.Sleep(20 * time.Millisecond) // a duplicate report, if any, follows at once
			msgs = append(msgs, vc.PendingReports()...)
		} else {
			for _, rq := range cs.Reqs {
				wg.Add(1)
				go func(id uint64) {
					defer wg.Done()
					vc.HandleRequest(types.RequestID(id))
				}(rq.RID)
			}
			done := make(chan struct{})
			go func() { wg.Wait(); close(done) }()
			select {
			case <-done:
			case <-time.After(8 * time.Second):
				hung = true // some request never finished: its goroutines are leaked, this process is abandoned
			}
			msgs = vc.PendingReports()
		}
		if cs.After != nil && !hung {
			// the owner replaces the executable of data source EditDS; the node serves the new file
			var d dsSpec
			for _, x := range cs.DS {
				if x.ID == cs.EditDS {
					d = x
				}
			}
			d.Fill += 101
			d.FileLen = 64
			file2 := fileOf(d)
			name2 := filecache.GetFilename(file2)
			ds2 := types.NewDataSource(bandtesting.Owner.Address, fmt.Sprintf("ds%d", d.ID), "", name2, sdk.NewCoins(), bandtesting.Treasury.Address)
			app.OracleKeeper.SetDataSource(ctx, types.DataSourceID(d.ID), ds2)
			key := string(types.DataSourceStoreKey(types.DataSourceID(d.ID)))
			node.mu.Lock()
			node.store[key] = app.AppCodec().MustMarshal(&ds2)
			delete(node.fail, key)
			node.files[name2] = file2
			node.mu.Unlock()
			sc.mu.Lock()
			sc.files[d.ID] = file2
			var raws []types.RawRequest
			for _, rs := range cs.After.Raws {
				raws = append(raws, types.NewRawRequest(types.ExternalID(rs.EID), types.DataSourceID(rs.DS), []byte(rs.Calldata)))
				sc.byCD[rs.Calldata] = rs
			}
			sc.mu.Unlock()
			req := types.NewRequest(1, []byte("calldata"), []sdk.ValAddress{other, val}, 1, 1, time.Unix(1, 0), "client", raws, nil, 100000, types.ENCODER_UNSPECIFIED,
				bandtesting.Alice.Address.String(), sdk.NewCoins())
			app.OracleKeeper.SetRequest(ctx, types.RequestID(cs.After.RID), req)
			node.mu.Lock()
			node.store[string(types.RequestStoreKey(types.RequestID(cs.After.RID)))] = app.AppCodec().MustMarshal(&req)
			node.mu.Unlock()
			done2 := make(chan struct{})
			go func() { vc.HandleRequest(types.RequestID(cs.After.RID)); close(done2) }()
			select {
			case <-done2:
			case <-time.After(8 * time.Second):
				hung = true
			}
			msgs = append(msgs, vc.PendingReports()...)
		}
		res := map[uint64][]any{}
		for _, m := range msgs {
			reps := append([]types.RawReport{}, m.RawReports...)
			sort.SliceStable(reps, func(i, j int) bool { return reps[i].ExternalID < reps[j].ExternalID })
			var rr []any
			for _, x := range reps {
				rr = append(rr, []any{uint64(x.ExternalID), x.ExitCode, hex.EncodeToString(x.Data)})
			}
			vb := fx.ErrStr(m.ValidateBasic())
			v, _ := sdk.ValAddressFromBech32(m.Validator)
			cv := fx.ErrStr(app.OracleKeeper.CheckValidReport(ctx, m.RequestID, v, m.RawReports))
			if cv == "" {
				// …and the chain's own handler takes it (on a branch: every report is judged against the same state)
				bctx, _ := ctx.CacheContext()
				mm := *m
				cv = fx.Try(func() error {
					_, err := oraclekeeper.NewMsgServerImpl(app.OracleKeeper).ReportData(bctx, &mm)
					return err
				})
			}
			res[uint64(m.RequestID)] = append(res[uint64(m.RequestID)], map[string]any{"raws": rr, "validateBasic": vb, "checkValid": cv, "validatorIsMe": m.Validator == val.String()})
		}
		out, _ := json.Marshal(res)
		if hung {
			fmt.Fprintf(w, "HUNG %d %s\n", cs.Idx, out)
			w.Flush()
			os.RemoveAll(dir)
			os.Exit(3)
		}
		fmt.Fprintf(w, "DONE %d %s\n", cs.Idx, out)
		w.Flush()
		os.RemoveAll(dir)
	}
}

// ---- parent ------------------------------------------------------------------------------------------
func main() {
	a := fx.ParseArgs()
	if a.Mode == "child" {
		from := a.Cases
		child(a.Replay, from)
		return
	}
	n := a.Cases
	if n == 0 {
		n = 60
	}
	r := fx.NewRng(a.Seed)
	var cases []caseSpec
	for i := 0; i < n; i++ {
		cases = append(cases, genCase(r, i))
	}
	specPath := a.Out + ".spec.json"
	bz, _ := json.Marshal(cases)
	fx.Must(os.WriteFile(specPath, bz, 0o644))
	tr := fx.NewTrace(a.Out)
	results := map[int]string{}
	crashed := map[int]string{}
	hungCases := map[int]bool{}
	next := 0
	self, err := os.Executable()
	fx.Must(err)
	for next < n {
		cmd := exec.Command(self, "--mode", "child", "--replay", specPath, "--cases", fmt.Sprint(next))
		stdout, err := cmd.StdoutPipe()
		fx.Must(err)
		var stderr lastLines
		cmd.Stderr = &stderr
		fx.Must(cmd.Start())
		sc := bufio.NewScanner(stdout)
		sc.Buffer(make([]byte, 1<<20), 1<<26)
		inflight := -1
		for sc.Scan() {
			var idx int
			line := sc.Text()
			if _, err := fmt.Sscanf(line, "START %d", &idx); err == nil {
				inflight = idx
				continue
			}
			var rest string
			if k, _ := fmt.Sscanf(line, "HUNG %d", &idx); k == 1 {
				results[idx] = line[len(fmt.Sprintf("HUNG %d ", idx)):]
				hungCases[idx] = true
				inflight = -1
				next = idx + 1
				continue
			}
			if k, _ := fmt.Sscanf(line, "DONE %d", &idx); k == 1 {
				rest = line[len(fmt.Sprintf("DONE %d ", idx)):]
				results[idx] = rest
				inflight = -1
				next = idx + 1
			}
		}
		werr := cmd.Wait()
		if ee, ok := werr.(*exec.ExitError); ok && ee.ExitCode() == 3 && inflight < 0 {
			continue // the child abandoned a hung case and is restarted after it
		}
		if werr != nil || inflight >= 0 {
			if inflight < 0 {
				inflight = next
			}
			crashed[inflight] = stderr.String()
			next = inflight + 1
		}
	}
	for _, cs := range cases {
		tr.Reset(nil)
		var byRID map[uint64][]any
		if s, ok := results[cs.Idx]; ok {
			_ = json.Unmarshal([]byte(s), &byRID)
		}
		dss := map[uint64]dsSpec{}
		for _, d := range cs.DS {
			dss[d.ID] = d
		}
		for _, rq := range cs.Reqs {
			var raws []any
			for _, rs := range rq.Raws {
				d := dss[rs.DS]
				raws = append(raws, fx.M{"eid": rs.EID, "ds": rs.DS, "calldata": rs.Calldata, "exec": rs.Exec, "code": rs.Code, "output": rs.Output,
					"hashOk": !d.HashFails, "loadable": d.Cached || d.NodeHas, "fileLen": d.FileLen, "cached": d.Cached})
			}
			out := fx.M{"reports": byRID[rq.RID], "crashed": false}
			if hungCases[cs.Idx] && byRID[rq.RID] == nil {
				out["hung"] = true
			}
			if byRID[rq.RID] == nil {
				out["reports"] = []any{}
			}
			if msg, ok := crashed[cs.Idx]; ok {
				out = fx.M{"reports": []any{}, "crashed": true, "panic": msg}
			}
			tr.Op(fx.M{"op": "request", "rid": rq.RID, "selected": rq.Selected, "raws": raws, "concurrent": len(cs.Reqs), "out": out})
		}
		if cs.After != nil {
			rq := *cs.After
			var raws []any
			for _, rs := range rq.Raws {
				raws = append(raws, fx.M{"eid": rs.EID, "ds": rs.DS, "calldata": rs.Calldata, "exec": rs.Exec, "code": rs.Code, "output": rs.Output,
					"hashOk": true, "loadable": true, "fileLen": 64, "cached": false})
			}
			out := fx.M{"reports": byRID[rq.RID], "crashed": false}
			if hungCases[cs.Idx] && byRID[rq.RID] == nil {
				out["hung"] = true
			}
			if byRID[rq.RID] == nil {
				out["reports"] = []any{}
			}
			if msg, ok := crashed[cs.Idx]; ok {
				out = fx.M{"reports": []any{}, "crashed": true, "panic": msg}
			}
			tr.Tag("request-after-data-source-edit")
			tr.Op(fx.M{"op": "request", "rid": rq.RID, "selected": true, "raws": raws, "concurrent": 1, "afterEdit": true, "out": out})
		}
	}
	tr.Close()
	tr.WriteStats(a.Stats, nil)
	os.Remove(specPath)
}

type lastLines struct{ buf []byte }

func (l *lastLines) Write(p []byte) (int, error) {
	l.buf = append(l.buf, p...)
	if len(l.buf) > 4000 {
		l.buf = l.buf[len(l.buf)-4000:]
	}
	return len(p), nil
}

func (l *lastLines) String() string {
	s := string(l.buf)
	for i := 0; i+6 < len(s); i++ {
		if s[i:i+6] == "panic:" {
			end := i + 200
			if end > len(s) {
				end = len(s)
			}
			return s[i:end]
		}
	}
	if len(s) > 200 {
		s = s[len(s)-200:]
	}
	return s
}
