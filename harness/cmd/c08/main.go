// c08: correspondence harness for C08 (tunnel packets): real tunnel EndBlocker / MsgTriggerTunnel with real
// feeds prices and the real bandtss/tss route (a DKG-built current group) or an IBC route without channel;
// route faults: no signing group, members out of nonces, missing IBC channel; fee payer at total-1/total.
package main

import (
	"encoding/hex"
	"encoding/json"
	"fmt"
	"os"
	"strconv"
	"strings"
	"time"

	sdkmath "cosmossdk.io/math"

	sdk "github.com/cosmos/cosmos-sdk/types"

	bandtesting "github.com/bandprotocol/chain/v3/testing"
	bandtsstypes "github.com/bandprotocol/chain/v3/x/bandtss/types"
	feedstypes "github.com/bandprotocol/chain/v3/x/feeds/types"
	tsskeeper "github.com/bandprotocol/chain/v3/x/tss/keeper"
	tsstypes "github.com/bandprotocol/chain/v3/x/tss/types"
	"github.com/bandprotocol/chain/v3/x/tunnel"
	tunnelkeeper "github.com/bandprotocol/chain/v3/x/tunnel/keeper"
	tunneltypes "github.com/bandprotocol/chain/v3/x/tunnel/types"

	"verifharness/internal/fx"
	"verifharness/internal/tssfx"
)

var signals = []string{"CS:A", "CS:B", "CS:C"}

type caseT struct {
	reported map[[2]uint64]bool  // TSS packets whose signed bytes were already put in the trace
	pending  []func(sdk.Context) // price changes the next feeds end-blocker makes
	reasons  []string            // why the route refused the packets of the last end-block
	app      *fx.App
	ctx      sdk.Context
	tr       *fx.Trace
	r        *fx.Rng
	ms       tunneltypes.MsgServer
	tms      tsstypes.MsgServer
	g        *tssfx.Group
	now      int64
	n        uint64
	base     int64
	route    int64
	creator  []int
	// fault: the route panics in the next end-block (a tss member record with an unparsable address makes
	// GetAvailableMembers panic inside SendPacket, which recovers it)
	panicNext bool
}

var creators = []bandtesting.Account{bandtesting.Alice, bandtesting.Bob}

func priceJSON(p feedstypes.Price) []any {
	return []any{p.SignalID, int(p.Status), fx.U(p.Price), p.Timestamp}
}

func (c *caseT) dump() fx.M {
	k := c.app.TunnelKeeper
	tunnels := []any{}
	for id := uint64(1); id <= c.n; id++ {
		t, err := k.GetTunnel(c.ctx, id)
		if err != nil {
			tunnels = append(tunnels, nil)
			continue
		}
		lp, _ := k.GetLatestPrices(c.ctx, id)
		latest := [][]any{}
		for _, p := range lp.Prices {
			latest = append(latest, priceJSON(p))
		}
		packets := []any{}
		for q := uint64(1); q <= t.Sequence+2; q++ {
			if pk, err := k.GetPacket(c.ctx, id, q); err == nil {
				ps := [][]any{}
				for _, p := range pk.Prices {
					ps = append(ps, priceJSON(p))
				}
				packets = append(packets, []any{q, ps})
			}
		}
		payer := c.app.BankKeeper.GetBalance(c.ctx, sdk.MustAccAddressFromBech32(t.FeePayer), "uband").Amount
		tunnels = append(tunnels, fx.M{"active": t.IsActive, "seq": t.Sequence, "latest": latest, "lastInterval": lp.LastInterval,
			"payer": json.Number(payer.String()), "packets": packets})
	}
	active := k.GetActiveTunnelIDs(c.ctx)
	if active == nil {
		active = []uint64{}
	}
	return fx.M{"tunnels": tunnels, "totalBase": json.Number(k.GetTotalFees(c.ctx).TotalBasePacketFee.AmountOf("uband").String()), "activeIdx": active}
}

// noReceipt lists the stored packets that carry no route receipt (a packet is stored only when its route accepted it)
func (c *caseT) noReceipt() [][]uint64 {
	out := [][]uint64{}
	k := c.app.TunnelKeeper
	for id := uint64(1); id <= c.n; id++ {
		t, err := k.GetTunnel(c.ctx, id)
		if err != nil {
			continue
		}
		for q := uint64(1); q <= t.Sequence+2; q++ {
			if pk, err := k.GetPacket(c.ctx, id, q); err == nil && pk.Receipt == nil {
				out = append(out, []uint64{id, q})
			}
		}
	}
	return out
}

// newlySigned lists, for every stored TSS packet not reported before, the bytes the signing group was asked to sign for it:
// [tunnel, sequence, created_at, number of prices, message]
func (c *caseT) newlySigned() [][]any {
	out := [][]any{}
	k := c.app.TunnelKeeper
	for id := uint64(1); id <= c.n; id++ {
		t, err := k.GetTunnel(c.ctx, id)
		if err != nil {
			continue
		}
		for q := uint64(1); q <= t.Sequence+2; q++ {
			key := [2]uint64{id, q}
			if c.reported[key] {
				continue
			}
			pk, err := k.GetPacket(c.ctx, id, q)
			if err != nil || pk.Receipt == nil {
				continue
			}
			rv, err := pk.GetReceiptValue()
			if err != nil {
				continue
			}
			tr, ok := rv.(*tunneltypes.TSSPacketReceipt)
			if !ok {
				continue
			}
			bs, err := c.app.BandtssKeeper.GetSigning(c.ctx, tr.SigningID)
			if err != nil {
				continue
			}
			sg, err := c.app.TSSKeeper.GetSigning(c.ctx, bs.CurrentGroupSigningID)
			if err != nil {
				continue
			}
			c.reported[key] = true
			out = append(out, []any{id, q, pk.CreatedAt, len(pk.Prices), hex.EncodeToString(sg.Message)})
		}
	}
	return out
}

func (c *caseT) emit(m fx.M, errS string, withErr bool) {
	m["obs"] = fx.M{"noReceipt": c.noReceipt(), "signed": c.newlySigned()}
	out := c.dump()
	if withErr {
		out["err"] = errS
	}
	m["out"] = out
	c.tr.Op(m)
}

func (c *caseT) feeds() [][]any {
	out := [][]any{}
	for _, p := range c.app.FeedsKeeper.GetAllPrices(c.ctx) {
		out = append(out, priceJSON(p))
	}
	return out
}

// setPrices decides what the feeds end-blocker of the NEXT block end computes (the harness stands in for the validators'
// submissions and the median): the changes are applied where the feeds module runs in the application's end-block order
func (c *caseT) setPrices() {
	r := c.r
	for _, s := range signals {
		s := s
		switch r.Intn(6) {
		case 0: // leave as is
		case 1: // remove from the feeds store (missing feed)
			c.pending = append(c.pending, func(ctx sdk.Context) {
				ctx.KVStore(c.app.GetKey(feedstypes.StoreKey)).Delete(feedstypes.PriceStoreKey(s))
			})
		default:
			kind := r.Intn(8)
			rnd := uint64(r.Range(1, 100000))
			zero := r.Chance(1, 15)
			st := feedstypes.PriceStatus(r.PickInt(3, 3, 3, 2, 1))
			c.pending = append(c.pending, func(ctx sdk.Context) {
				old := c.app.FeedsKeeper.GetPrice(ctx, s).Price
				var p uint64
				switch kind {
				case 0:
					p = 0
				case 1:
					p = old
				case 2:
					p = old + old/100 // exactly 100 bps up
				case 3:
					p = old + old/100 - 1
				case 4:
					p = old + old/50 // 200 bps
				case 5:
					if old > old/50 {
						p = old - old/50
					}
				default:
					p = rnd
				}
				if zero {
					p = 0 // an available price of zero is legal (only non-available statuses must carry price 0)
				}
				c.app.FeedsKeeper.SetPrice(ctx, feedstypes.NewPrice(st, s, p, ctx.BlockTime().Unix()))
			})
		}
	}
}

func (c *caseT) applyPending(ctx sdk.Context) {
	for _, f := range c.pending {
		f(ctx)
	}
}

func (c *caseT) supplyDEs() {
	if c.g == nil {
		return
	}
	for id := 1; id <= int(c.g.N); id++ {
		q := c.app.TSSKeeper.GetDEQueue(c.ctx, c.g.Addr(id))
		if q.Tail-q.Head < 3 {
			_, err := c.tms.SubmitDEs(c.ctx, &tsstypes.MsgSubmitDEs{DEs: c.g.NewDEs(id, 5), Sender: c.g.Addr(id).String()})
			fx.Must(err)
		}
	}
}

func (c *caseT) failedTunnels(ev sdk.Events) []uint64 {
	out := []uint64{}
	for _, e := range ev {
		if e.Type == tunneltypes.EventTypeProducePacketFail {
			for _, a := range e.Attributes {
				if a.Key == tunneltypes.AttributeKeyTunnelID {
					id, _ := strconv.ParseUint(a.Value, 10, 64)
					out = append(out, id)
				}
				if a.Key == tunneltypes.AttributeKeyReason {
					c.reasons = append(c.reasons, a.Value)
					if os.Getenv("C08_DEBUG") != "" {
						fmt.Fprintln(os.Stderr, "REASON", a.Value)
					}
				}
			}
		}
	}
	return out
}

func (c *caseT) endBlock() {
	// the prices of THIS block are what the feeds end-blocker leaves (computed here on a branch): they are what the trigger
	// rule of the tunnels is stated against
	bctx, _ := c.ctx.CacheContext()
	c.applyPending(bctx)
	saveCtx := c.ctx
	c.ctx = bctx
	feeds := c.feeds()
	c.ctx = saveCtx
	ctx := c.ctx.WithEventManager(sdk.NewEventManager())
	var saved *tsstypes.Member
	if c.panicNext && c.g != nil {
		if mem, err := c.app.TSSKeeper.GetMember(c.ctx, c.g.GroupID, 1); err == nil {
			saved = &mem
			bad := mem
			bad.Address = "not-a-bech32-address"
			c.app.TSSKeeper.SetMember(c.ctx, bad)
			c.tr.Tag("fault-route-panics")
		}
	}
	injected := saved != nil
	c.panicNext = false
	c.reasons = nil
	e := fx.Try(func() error {
		// the two modules in the order the APPLICATION runs its end-blockers
		for _, mod := range c.app.EndBlockOrderForVerif() {
			switch mod {
			case feedstypes.ModuleName:
				c.applyPending(ctx)
				c.pending = nil
			case tunneltypes.ModuleName:
				if err := tunnel.EndBlocker(ctx, c.app.TunnelKeeper); err != nil {
					return err
				}
			}
		}
		return nil
	})
	c.applyPending(ctx) // (only if the feeds module is not in the order at all)
	c.pending = nil
	if saved != nil {
		c.app.TSSKeeper.SetMember(c.ctx, *saved)
	}
	failed := c.failedTunnels(ctx.EventManager().Events())
	// a route may refuse a packet for the faults the scenarios contain — no signing group, too few members with a nonce, a
	// fee above the limit, no IBC channel, the injected panic — and for nothing else
	unexplained := []string{}
	for _, why := range c.reasons {
		switch {
		case strings.Contains(why, "channel capability not found"), strings.Contains(why, "no active group"),
			strings.Contains(why, "insufficient members"), strings.Contains(why, "fee"):
		case strings.Contains(why, "panic in sending packet") && injected:
		default:
			unexplained = append(unexplained, why)
		}
	}
	m := fx.M{"op": "endBlock", "feeds": feeds, "now": c.now / 1, "routeFailed": failed, "unexplainedFailures": unexplained}
	if e != "" {
		c.tr.Op(fx.M{"op": "endBlock", "feeds": feeds, "now": c.now, "routeFailed": failed, "out": fx.M{"panic": true, "err": e}})
	} else {
		c.emit(m, "", false)
	}
	c.now += int64(c.r.PickInt(1, 2, 5, 10, 30))
	c.ctx = c.ctx.WithBlockTime(time.Unix(c.now, 0).UTC()).WithBlockHeight(c.ctx.BlockHeight() + 1)
}

func (c *caseT) trigger() {
	id := uint64(1 + c.r.Intn(int(c.n)))
	sender := c.creator[id-1]
	if c.r.Chance(1, 6) {
		sender = 1 - sender
	}
	t, _ := c.app.TunnelKeeper.GetTunnel(c.ctx, id)
	prices := [][]any{}
	for _, p := range c.app.FeedsKeeper.GetPrices(c.ctx, t.GetSignalIDs()) {
		prices = append(prices, priceJSON(p))
	}
	msg := tunneltypes.NewMsgTriggerTunnel(id, creators[sender].Address.String())
	e := fx.Atomically(c.ctx, func(ctx sdk.Context) error { _, err := c.ms.TriggerTunnel(ctx, msg); return err })
	// a route failure is any error that is not one of the gate errors
	gate := map[string]bool{"": true, "tunnel/6": true, "tunnel/10": true, "tunnel/13": true, "tunnel/19": true}
	c.emit(fx.M{"op": "trigger", "id": id, "sender": sender, "prices": prices, "now": c.now, "routeFailed": !gate[e]}, e, true)
}

func runCase(app *fx.App, tr *fx.Trace, r *fx.Rng, caseNo int) {
	ctx, _ := app.Ctx.CacheContext()
	c := &caseT{reported: map[[2]uint64]bool{}, app: app, ctx: ctx, tr: tr, r: r, ms: tunnelkeeper.NewMsgServerImpl(app.TunnelKeeper), tms: tsskeeper.NewMsgServerImpl(app.TSSKeeper)}
	c.now = 1_700_000_000
	c.ctx = c.ctx.WithBlockTime(time.Unix(c.now, 0).UTC()).WithBlockHeight(int64(r.Range(10, 20)))
	tr.Reset(nil)
	c.base = int64(r.PickInt(0, 1, 5, 100))
	feePerSigner := int64(r.PickInt(0, 3, 10))
	p := app.TunnelKeeper.GetParams(c.ctx)
	p.MinDeposit = sdk.NewCoins(sdk.NewInt64Coin("uband", 10))
	p.MinInterval, p.MaxInterval = 1, 1000
	p.MinDeviationBPS, p.MaxDeviationBPS = 1, 10000
	p.BasePacketFee = sdk.NewCoins()
	if c.base > 0 {
		p.BasePacketFee = sdk.NewCoins(sdk.NewInt64Coin("uband", c.base))
	}
	fx.Must(app.TunnelKeeper.SetParams(c.ctx, p))
	bp := app.BandtssKeeper.GetParams(c.ctx)
	bp.FeePerSigner = sdk.NewCoins()
	if feePerSigner > 0 {
		bp.FeePerSigner = sdk.NewCoins(sdk.NewInt64Coin("uband", feePerSigner))
	}
	fx.Must(app.BandtssKeeper.SetParams(c.ctx, bp))
	tp := app.TSSKeeper.GetParams(c.ctx)
	tp.MaxDESize = 50
	fx.Must(app.TSSKeeper.SetParams(c.ctx, tp))
	// the signing group (sometimes absent: route fault "no signing group")
	if r.Chance(5, 6) {
		g, err := tssfx.NewGroupWith(app, c.ctx, tssfx.NewAccounts(int64(caseNo)*7+1, r.Range(2, 3)), uint64(r.Range(1, 2)), bandtsstypes.ModuleName)
		fx.Must(err)
		g.MakeCurrent(app, c.ctx)
		c.g = g
		c.supplyDEs()
		c.route = feePerSigner * int64(g.T)
	}
	c.tr.Op(fx.M{"op": "fees", "base": c.base, "route": c.route, "out": c.dump()})
	for _, s := range signals {
		app.FeedsKeeper.SetPrice(c.ctx, feedstypes.NewPrice(feedstypes.PRICE_STATUS_AVAILABLE, s, uint64(r.Range(1000, 50000)), c.now))
	}
	nt := r.Range(1, 3)
	for i := 0; i < nt; i++ {
		cr := r.Intn(2)
		nsig := r.Range(1, 3)
		var sds []tunneltypes.SignalDeviation
		var sdj [][]any
		for k := 0; k < nsig; k++ {
			soft := uint64(r.PickInt(50, 100, 100, 200))
			hard := soft + uint64(r.PickInt(0, 100, 100))
			sds = append(sds, tunneltypes.NewSignalDeviation(signals[k], soft, hard))
			sdj = append(sdj, []any{signals[k], soft, hard})
		}
		interval := uint64(r.PickInt(1, 5, 10, 60))
		isTSS := r.Chance(3, 4)
		var msg *tunneltypes.MsgCreateTunnel
		var err error
		dep := sdk.NewCoins(sdk.NewInt64Coin("uband", 10))
		if isTSS {
			enc := feedstypes.ENCODER_FIXED_POINT_ABI
			if r.Bool() {
				enc = feedstypes.ENCODER_TICK_ABI
			}
			msg, err = tunneltypes.NewMsgCreateTSSTunnel(sds, interval, "eth", "0xabc", enc, dep, creators[cr].Address.String())
		} else {
			msg, err = tunneltypes.NewMsgCreateIBCTunnel(sds, interval, dep, creators[cr].Address.String())
		}
		fx.Must(err)
		_, err = c.ms.CreateTunnel(c.ctx, msg)
		fx.Must(err)
		c.n++
		c.creator = append(c.creator, cr)
		active := r.Chance(5, 6)
		if active {
			_, err = c.ms.Activate(c.ctx, tunneltypes.NewMsgActivate(c.n, creators[cr].Address.String()))
			fx.Must(err)
		}
		t, _ := app.TunnelKeeper.GetTunnel(c.ctx, c.n)
		total := c.base
		if isTSS {
			total += c.route
		}
		fund := total*int64(r.Range(0, 6)) + r.PickI64(0, 0, total-1, 1)
		if fund < 0 {
			fund = 0
		}
		app.Fund(c.ctx, sdk.MustAccAddressFromBech32(t.FeePayer), "uband", sdkmath.NewInt(fund))
		lp, _ := app.TunnelKeeper.GetLatestPrices(c.ctx, c.n)
		c.emit(fx.M{"op": "setup", "id": c.n, "creator": cr, "active": active, "interval": interval, "sds": sdj, "isTSS": isTSS,
			"lastInterval": lp.LastInterval, "payer": fund}, "", false)
	}
	nops := r.Range(8, 30)
	for i := 0; i < nops; i++ {
		switch x := r.Intn(20); {
		case x < 6:
			c.setPrices()
		case x < 14:
			c.endBlock()
			if r.Chance(4, 5) {
				c.supplyDEs()
			}
		case x < 15:
			c.trigger()
		case x < 16:
			// the creator switches a tunnel off or back on (real messages); switching on is not a send: what was due stays due
			id := uint64(1 + r.Intn(int(c.n)))
			t, _ := app.TunnelKeeper.GetTunnel(c.ctx, id)
			c.now += int64(r.PickInt(0, 1, 7, 100))
			c.ctx = c.ctx.WithBlockTime(time.Unix(c.now, 0).UTC())
			var err error
			if t.IsActive {
				_, err = c.ms.Deactivate(c.ctx, tunneltypes.NewMsgDeactivate(id, t.Creator))
			} else {
				_, err = c.ms.Activate(c.ctx, tunneltypes.NewMsgActivate(id, t.Creator))
			}
			c.emit(fx.M{"op": "setActive", "id": id, "active": !t.IsActive, "now": c.now}, fx.ErrStr(err), true)
		case x < 18:
			id := uint64(1 + r.Intn(int(c.n)))
			t, _ := app.TunnelKeeper.GetTunnel(c.ctx, id)
			amt := int64(r.PickInt(1, 5, 50, 500))
			app.Fund(c.ctx, sdk.MustAccAddressFromBech32(t.FeePayer), "uband", sdkmath.NewInt(amt))
			c.emit(fx.M{"op": "fund", "id": id, "amt": amt}, "", false)
		default:
			if r.Chance(1, 2) {
				c.panicNext = true
				continue
			}
			// route fault: every member resets its nonces
			if c.g != nil {
				for id := 1; id <= int(c.g.N); id++ {
					_, _ = c.tms.ResetDE(c.ctx, &tsstypes.MsgResetDE{Sender: c.g.Addr(id).String()})
				}
				c.tr.Tag("fault-out-of-DEs")
			}
		}
	}
}

func main() {
	a := fx.ParseArgs()
	app := fx.NewApp()
	defer app.Close()
	tr := fx.NewTrace(a.Out)
	n := a.Cases
	if n == 0 {
		n = 150
	}
	r := fx.NewRng(a.Seed)
	for i := 0; i < n; i++ {
		runCase(app, tr, r.Fork(), i)
	}
	tr.Close()
	tr.WriteStats(a.Stats, nil)
}
