// c11 drives the REAL signed-message encoders: bandtss MsgRequestSignature / CreateTunnelSigningRequest /
// CreateTransitionSigning on an in-process app with a DKG-built group (the bytes are read back from the tss
// Signing store), the content encoders with go-ethereum's ABI decoder as the independent reader, and
// pkg/tickmath.  One JSON line per operation; the Lean driver replays the model (Drivers/C11.lean).
package main

import (
	"encoding/hex"
	"math"
	"math/big"
	"time"

	sdkmath "cosmossdk.io/math"
	sdk "github.com/cosmos/cosmos-sdk/types"
	authtypes "github.com/cosmos/cosmos-sdk/x/auth/types"
	"github.com/ethereum/go-ethereum/accounts/abi"

	"github.com/bandprotocol/chain/v3/pkg/tickmath"
	"github.com/bandprotocol/chain/v3/pkg/tss"
	bandtesting "github.com/bandprotocol/chain/v3/testing"
	bandtsskeeper "github.com/bandprotocol/chain/v3/x/bandtss/keeper"
	bandtsstypes "github.com/bandprotocol/chain/v3/x/bandtss/types"
	feedstypes "github.com/bandprotocol/chain/v3/x/feeds/types"
	oracletypes "github.com/bandprotocol/chain/v3/x/oracle/types"
	tsskeeper "github.com/bandprotocol/chain/v3/x/tss/keeper"
	tsstypes "github.com/bandprotocol/chain/v3/x/tss/types"
	tunneltypes "github.com/bandprotocol/chain/v3/x/tunnel/types"

	"verifharness/internal/fx"
	"verifharness/internal/tssfx"
)

func hx(b []byte) string { return hex.EncodeToString(b) }

var sigPool = []string{"CS:BTC-USD", "CS:ETH-USD", "A", "xxxxxxxxxxxxxxxxxxxxxxxxxxxxxxxx", "CS:BAND-USD", "~", "abcdefghijklmnopqrstuvwxyz012345", "Z-1"}

func randPrice(r *fx.Rng) uint64 {
	switch r.Intn(8) {
	case 0:
		return 0
	case 1:
		return math.MaxUint64
	case 2:
		return 1
	case 3:
		return uint64(r.Range(1, 1000))
	case 4:
		return 1 << uint(r.Intn(64))
	default:
		return r.U64() >> uint(r.Intn(64))
	}
}

func randI64(r *fx.Rng) int64 {
	switch r.Intn(6) {
	case 0:
		return 0
	case 1:
		return math.MaxInt64
	case 2:
		return math.MinInt64
	case 3:
		return -int64(r.Range(1, 100000))
	default:
		return 1_700_000_000 + int64(r.Range(0, 1000000))
	}
}

func randBytes(r *fx.Rng) []byte {
	n := r.PickInt(0, 0, 1, 4, 31, 32, 33, 64, 65, 100)
	return r.Bytes(n)
}

var (
	priceABI, _ = abi.NewType("tuple[]", "struct Prices[]", []abi.ArgumentMarshaling{{Name: "SignalID", Type: "bytes32"}, {Name: "Price", Type: "uint64"}})
	i64ABI, _   = abi.NewType("int64", "", nil)
	feedsArgs   = abi.Arguments{{Type: priceABI, Name: "Prices"}, {Type: i64ABI, Name: "Timestamp"}}
	packetABI, _ = abi.NewType("tuple", "result", []abi.ArgumentMarshaling{
		{Name: "Sequence", Type: "uint64"},
		{Name: "RelayPrices", Type: "tuple[]", InternalType: "struct Prices[]", Components: []abi.ArgumentMarshaling{{Name: "SignalID", Type: "bytes32"}, {Name: "Price", Type: "uint64"}}},
		{Name: "CreatedAt", Type: "int64"}})
	packetArgs    = abi.Arguments{{Type: packetABI, Name: "packet"}}
	fullResult, _ = abi.NewType("tuple", "result", []abi.ArgumentMarshaling{
		{Name: "ClientID", Type: "string"}, {Name: "OracleScriptID", Type: "uint64"}, {Name: "Calldata", Type: "bytes"}, {Name: "AskCount", Type: "uint64"},
		{Name: "MinCount", Type: "uint64"}, {Name: "RequestID", Type: "uint64"}, {Name: "AnsCount", Type: "uint64"}, {Name: "RequestTime", Type: "int64"},
		{Name: "ResolveTime", Type: "int64"}, {Name: "ResolveStatus", Type: "int32"}, {Name: "Result", Type: "bytes"}})
	fullArgs         = abi.Arguments{{Type: fullResult, Name: "result"}}
	partialResult, _ = abi.NewType("tuple", "result", []abi.ArgumentMarshaling{
		{Name: "Calldata", Type: "bytes"}, {Name: "OracleScriptID", Type: "uint64"}, {Name: "RequestID", Type: "uint64"}, {Name: "MinCount", Type: "uint64"},
		{Name: "ResolveTime", Type: "int64"}, {Name: "ResolveStatus", Type: "int32"}, {Name: "Result", Type: "bytes"}})
	partialArgs = abi.Arguments{{Type: partialResult, Name: "result"}}
)

// decoded relay prices as [[sidhex, price]...] (price as decimal string)
func relayOut(v any) []any {
	out := []any{}
	for _, e := range v.([]struct {
		SignalID [32]uint8 `json:"SignalID"`
		Price    uint64    `json:"Price"`
	}) {
		out = append(out, []any{hx(e.SignalID[:]), fx.U(e.Price)})
	}
	return out
}

func pricesIn(ps []feedstypes.Price) []any {
	out := []any{}
	for _, p := range ps {
		out = append(out, []any{hx([]byte(p.SignalID)), fx.U(p.Price), int(p.Status)})
	}
	return out
}

func randFeedPrices(r *fx.Rng) []feedstypes.Price {
	n := r.PickInt(0, 1, 1, 2, 3, 5)
	var ps []feedstypes.Price
	for i := 0; i < n; i++ {
		sid := r.PickStr(sigPool...)
		if r.Chance(1, 10) {
			sid = string(r.Bytes(r.Range(1, 32)))
		}
		if r.Chance(1, 25) {
			sid = string(r.Bytes(33)) // too long: rejected
		}
		ps = append(ps, feedstypes.Price{Status: feedstypes.PriceStatus(r.Range(1, 3)), SignalID: sid, Price: randPrice(r), Timestamp: randI64(r)})
	}
	return ps
}

func encoderOf(r *fx.Rng) feedstypes.Encoder {
	return feedstypes.Encoder(r.PickInt(1, 1, 2, 2, 0, 3))
}

// ---- pure encoders -------------------------------------------------------------------------------
func opFeedsEnc(tr *fx.Trace, r *fx.Rng) {
	ps := randFeedPrices(r)
	ts := randI64(r)
	enc := encoderOf(r)
	bz, err := feedstypes.EncodeTSS(ps, ts, enc)
	out := fx.M{"err": fx.ErrStr(err), "bytes": hx(bz)}
	if err == nil {
		vals, e2 := feedsArgs.Unpack(bz[4:])
		if e2 != nil {
			out["decodeErr"] = e2.Error()
		} else {
			out["dec"] = fx.M{"prices": relayOut(vals[0]), "ts": fx.I(vals[1].(int64))}
		}
	}
	tr.Op(fx.M{"op": "feedsEnc", "prices": pricesIn(ps), "ts": fx.I(ts), "encoder": int(enc), "out": out})
}

func opTunnelEnc(tr *fx.Trace, r *fx.Rng) {
	ps := randFeedPrices(r)
	ts := randI64(r)
	seq := randPrice(r)
	enc := encoderOf(r)
	bz, err := tunneltypes.EncodeTSS(seq, ps, ts, enc)
	out := fx.M{"err": fx.ErrStr(err), "bytes": hx(bz)}
	if err == nil {
		vals, e2 := packetArgs.Unpack(bz[4:])
		if e2 != nil {
			out["decodeErr"] = e2.Error()
		} else {
			v := vals[0].(struct {
				Sequence    uint64 `json:"Sequence"`
				RelayPrices []struct {
					SignalID [32]uint8 `json:"SignalID"`
					Price    uint64    `json:"Price"`
				} `json:"RelayPrices"`
				CreatedAt int64 `json:"CreatedAt"`
			})
			out["dec"] = fx.M{"seq": fx.U(v.Sequence), "prices": relayOut(v.RelayPrices), "ts": fx.I(v.CreatedAt)}
		}
	}
	tr.Op(fx.M{"op": "tunnelEnc", "seq": fx.U(seq), "prices": pricesIn(ps), "ts": fx.I(ts), "encoder": int(enc), "out": out})
}

func randResult(r *fx.Rng) oracletypes.Result {
	return oracletypes.NewResult(string(randBytes(r)), oracletypes.OracleScriptID(randPrice(r)), randBytes(r), randPrice(r), randPrice(r),
		oracletypes.RequestID(randPrice(r)), randPrice(r), randI64(r), randI64(r), oracletypes.ResolveStatus(r.Range(0, 3)), randBytes(r))
}

func resultIn(x oracletypes.Result) fx.M {
	return fx.M{"clientID": hx([]byte(x.ClientID)), "osid": fx.U(uint64(x.OracleScriptID)), "calldata": hx(x.Calldata), "ask": fx.U(x.AskCount), "min": fx.U(x.MinCount),
		"rid": fx.U(uint64(x.RequestID)), "ans": fx.U(x.AnsCount), "reqTime": fx.I(x.RequestTime), "resTime": fx.I(x.ResolveTime), "status": int(x.ResolveStatus), "result": hx(x.Result)}
}

func opResultEnc(tr *fx.Trace, r *fx.Rng) {
	x := randResult(r)
	full, err1 := x.PackFullABI()
	part, err2 := x.PackPartialABI()
	out := fx.M{"errFull": fx.ErrStr(err1), "errPartial": fx.ErrStr(err2), "full": hx(full), "partial": hx(part)}
	if err1 == nil {
		vals, e := fullArgs.Unpack(full)
		if e != nil {
			out["decodeErrFull"] = e.Error()
		} else {
			v := vals[0].(struct {
				ClientID       string `json:"ClientID"`
				OracleScriptID uint64 `json:"OracleScriptID"`
				Calldata       []uint8 `json:"Calldata"`
				AskCount       uint64 `json:"AskCount"`
				MinCount       uint64 `json:"MinCount"`
				RequestID      uint64 `json:"RequestID"`
				AnsCount       uint64 `json:"AnsCount"`
				RequestTime    int64  `json:"RequestTime"`
				ResolveTime    int64  `json:"ResolveTime"`
				ResolveStatus  int32  `json:"ResolveStatus"`
				Result         []uint8 `json:"Result"`
			})
			out["decFull"] = fx.M{"clientID": hx([]byte(v.ClientID)), "osid": fx.U(v.OracleScriptID), "calldata": hx(v.Calldata), "ask": fx.U(v.AskCount), "min": fx.U(v.MinCount),
				"rid": fx.U(v.RequestID), "ans": fx.U(v.AnsCount), "reqTime": fx.I(v.RequestTime), "resTime": fx.I(v.ResolveTime), "status": int(v.ResolveStatus), "result": hx(v.Result)}
		}
	}
	if err2 == nil {
		vals, e := partialArgs.Unpack(part)
		if e != nil {
			out["decodeErrPartial"] = e.Error()
		} else {
			v := vals[0].(struct {
				Calldata       []uint8 `json:"Calldata"`
				OracleScriptID uint64 `json:"OracleScriptID"`
				RequestID      uint64 `json:"RequestID"`
				MinCount       uint64 `json:"MinCount"`
				ResolveTime    int64  `json:"ResolveTime"`
				ResolveStatus  int32  `json:"ResolveStatus"`
				Result         []uint8 `json:"Result"`
			})
			out["decPartial"] = fx.M{"calldata": hx(v.Calldata), "osid": fx.U(v.OracleScriptID), "rid": fx.U(v.RequestID), "min": fx.U(v.MinCount),
				"resTime": fx.I(v.ResolveTime), "status": int(v.ResolveStatus), "result": hx(v.Result)}
		}
	}
	tr.Op(fx.M{"op": "resultEnc", "result": resultIn(x), "out": out})
}

func tickOut(price uint64) fx.M {
	t, err := tickmath.PriceToTick(price)
	out := fx.M{"err": err != nil, "tick": fx.U(t)}
	if err == nil {
		p2, e2 := tickmath.TickToPrice(int64(t) - tickmath.Offset)
		out["back"] = fx.U(p2)
		out["backErr"] = e2 != nil
	}
	return out
}

func opTick(tr *fx.Trace, r *fx.Rng) {
	var price uint64
	switch r.Intn(5) {
	case 0: // around a tick's price
		t := int64(r.Range(0, 2*262143)) - 262143
		p, err := tickmath.TickToPrice(t)
		if err != nil {
			p = randPrice(r)
		}
		price = p + uint64(r.Range(0, 2)) - 1
	case 1:
		price = uint64(r.Range(0, 5000))
	case 2:
		price = math.MaxUint64 - uint64(r.Range(0, 5000))
	default:
		price = randPrice(r)
	}
	tr.Op(fx.M{"op": "tick", "price": fx.U(price), "out": tickOut(price)})
}

func opTickToPrice(tr *fx.Trace, r *fx.Rng) {
	t := int64(r.Range(0, 2*262143+10)) - 262143 - 5
	p, err := tickmath.TickToPrice(t)
	tr.Op(fx.M{"op": "tickToPrice", "tick": fx.I(t), "out": fx.M{"err": err != nil, "price": fx.U(p)}})
}

// sweep: every 8th tick (offset by the seed): the prices just below, at and just above the tick's price.
// Exhaustive over tick boundaries when run for seeds 0..7; not a proof over all prices.
func sweep(tr *fx.Trace, seed uint64) {
	tr.Reset(nil)
	for t := -tickmath.MaxTick + int64(seed%8); t <= tickmath.MaxTick; t += 8 {
		p, err := tickmath.TickToPrice(t)
		if err != nil {
			continue
		}
		for _, q := range []uint64{p - 1, p, p + 1} {
			if q != 0 {
				tr.Op(fx.M{"op": "tick", "price": fx.U(q), "out": tickOut(q)})
			}
		}
	}
}

// ---- header / originators -------------------------------------------------------------------------
func randStr(r *fx.Rng) string {
	return r.PickStr("", "bandchain", "band-laozi-testnet6", "a", "a|b", "\x00", "0x1234", string(r.Bytes(r.Range(1, 40))), "eth", "0xdeadbeef")
}

func opHeader(app *fx.App, tr *fx.Trace, r *fx.Rng) {
	ts := int64(r.PickI64(0, 1, 1_700_000_000, 4_000_000_000, math.MaxInt64))
	ctx := app.Ctx.WithBlockTime(time.Unix(ts, 0))
	sid := randPrice(r)
	content := randBytes(r)
	var ob []byte
	m := fx.M{"op": "header", "time": fx.I(ts), "sid": fx.U(sid), "content": hx(content)}
	if r.Bool() {
		o := tsstypes.NewDirectOriginator(randStr(r), randStr(r), randStr(r))
		ob, _ = o.Encode()
		m["kind"] = "direct"
		m["f"] = []string{hx([]byte(o.SourceChainID)), hx([]byte(o.Requester)), hx([]byte(o.Memo))}
	} else {
		o := tsstypes.NewTunnelOriginator(randStr(r), randPrice(r), randStr(r), randStr(r))
		ob, _ = o.Encode()
		m["kind"] = "tunnel"
		m["f"] = []string{hx([]byte(o.SourceChainID)), hx([]byte(o.DestinationChainID)), hx([]byte(o.DestinationContractAddress))}
		m["tunnelID"] = fx.U(o.TunnelID)
	}
	msg := tsstypes.EncodeSigning(ctx, sid, ob, content)
	m["out"] = fx.M{"originator": hx(ob), "msg": hx(msg)}
	tr.Op(m)
}

// ---- the real request path --------------------------------------------------------------------------
type caseT struct {
	app  *fx.App
	ctx  sdk.Context
	tr   *fx.Trace
	r    *fx.Rng
	g    *tssfx.Group
	bms  bandtsstypes.MsgServer
	tms  tsstypes.MsgServer
	now  int64
	user bandtesting.Account
	pubKey []byte
}

func (c *caseT) topUp() {
	for id := 1; id <= int(c.g.N); id++ {
		_, _ = c.tms.SubmitDEs(c.ctx, &tsstypes.MsgSubmitDEs{DEs: c.g.NewDEs(id, 5), Sender: c.g.Addr(id).String()})
	}
}

func (c *caseT) request() {
	r := c.r
	c.now += int64(r.Range(0, 100))
	c.ctx = c.ctx.WithBlockTime(time.Unix(c.now, 0))
	if r.Chance(1, 3) {
		c.topUp()
	}
	tk := c.app.TSSKeeper
	want := tk.GetSigningCount(c.ctx) + 1
	m := fx.M{"op": "request", "chainID": hx([]byte(c.ctx.ChainID())), "time": fx.I(c.now), "wantSid": fx.U(want)}
	memo := randStr(r)
	var errS string
	limit := sdk.NewCoins(sdk.NewInt64Coin("uband", 1_000_000))
	viaMsg := func(content tsstypes.Content) {
		msg, err := bandtsstypes.NewMsgRequestSignature(content, limit, c.user.Address.String())
		fx.Must(err)
		msg.Memo = memo
		m["originator"] = "direct"
		m["requester"] = hx([]byte(c.user.Address.String()))
		m["memo"] = hx([]byte(memo))
		errS = fx.Try(msg.ValidateBasic)
		if errS == "" {
			errS = fx.Atomically(c.ctx, func(ctx sdk.Context) error { _, err := c.bms.RequestSignature(ctx, msg); return err })
		}
	}
	switch k := r.Intn(9); k {
	case 0, 1:
		text := randBytes(r)
		m["kind"] = "text"
		m["text"] = hx(text)
		viaMsg(tsstypes.NewTextSignatureOrder(text))
	case 2, 3:
		ps := randFeedPrices(r)
		var ids []string
		for _, p := range ps {
			p.Timestamp = c.now
			c.app.FeedsKeeper.SetPrice(c.ctx, p)
			ids = append(ids, p.SignalID)
		}
		if r.Chance(1, 6) {
			ids = append(ids, "CS:NOT-SET")
		}
		enc := encoderOf(r)
		m["kind"] = "feeds"
		m["encoder"] = int(enc)
		m["prices"] = pricesIn(c.app.FeedsKeeper.GetPrices(c.ctx, ids)) // the on-chain data at request time
		viaMsg(feedstypes.NewFeedSignatureOrder(ids, enc))
	case 4, 5:
		x := randResult(r)
		rid := oracletypes.RequestID(r.Range(1, 50))
		x.RequestID = rid
		c.app.OracleKeeper.SetResult(c.ctx, rid, x)
		enc := oracletypes.Encoder(r.PickInt(1, 2, 2, 3, 3, 0))
		m["kind"] = "oracle"
		m["encoder"] = int(enc)
		m["result"] = resultIn(x)
		if enc == oracletypes.ENCODER_PROTO {
			bz, _ := c.app.OracleKeeper.MarshalResult(c.ctx, x)
			m["proto"] = hx(bz) // protobuf bytes are an input: not modelled
		}
		viaMsg(oracletypes.NewOracleResultSignatureOrder(rid, enc))
	case 6:
		// internal kinds through the user message: must be rejected
		if r.Bool() {
			m["kind"] = "tunnelByUser"
			viaMsg(tunneltypes.NewTunnelSignatureOrder(1, nil, c.now, feedstypes.ENCODER_FIXED_POINT_ABI))
		} else {
			m["kind"] = "transitionByUser"
			viaMsg(bandtsstypes.NewGroupTransitionSignatureOrder(c.pubKey, time.Unix(c.now+100, 0)))
		}
	case 7:
		ps := randFeedPrices(r)
		seq := randPrice(r)
		enc := encoderOf(r)
		tid := uint64(r.Range(1, 1000))
		dc, da := randStr(r), randStr(r)
		m["kind"] = "tunnel"
		m["originator"] = "tunnel"
		m["tunnelID"] = fx.U(tid)
		m["dstChain"] = hx([]byte(dc))
		m["dstAddr"] = hx([]byte(da))
		m["seq"] = fx.U(seq)
		m["prices"] = pricesIn(ps)
		m["createdAt"] = fx.I(c.now)
		m["encoder"] = int(enc)
		content := tunneltypes.NewTunnelSignatureOrder(seq, ps, c.now, enc)
		errS = fx.Atomically(c.ctx, func(ctx sdk.Context) error {
			_, err := c.app.BandtssKeeper.CreateTunnelSigningRequest(ctx, tid, dc, da, content, c.user.Address, limit)
			return err
		})
	default:
		tt := c.now + int64(r.Range(1, 100000))
		m["kind"] = "transition"
		m["originator"] = "direct"
		m["requester"] = hx([]byte(c.app.AccountKeeper.GetModuleAddress(bandtsstypes.ModuleName).String()))
		m["memo"] = ""
		m["pubKey"] = hx(c.pubKey)
		m["transitionTime"] = fx.I(tt)
		errS = fx.Atomically(c.ctx, func(ctx sdk.Context) error {
			_, err := c.app.BandtssKeeper.CreateTransitionSigning(ctx, c.pubKey, time.Unix(tt, 0))
			return err
		})
	}
	out := fx.M{"err": errS, "count": fx.U(tk.GetSigningCount(c.ctx))}
	if errS == "" {
		sg, err := tk.GetSigning(c.ctx, tss.SigningID(want))
		fx.Must(err)
		out["msg"] = hx(sg.Message)
	}
	m["out"] = out
	c.tr.Op(m)
}

func runCase(app *fx.App, tr *fx.Trace, r *fx.Rng, caseNo int) {
	ctx, _ := app.Ctx.CacheContext()
	tr.Reset(nil)
	c := &caseT{app: app, ctx: ctx, tr: tr, r: r, bms: bandtsskeeper.NewMsgServerImpl(app.BandtssKeeper), tms: tsskeeper.NewMsgServerImpl(app.TSSKeeper), user: bandtesting.Bob}
	c.now = 1_700_000_000 + int64(r.Range(0, 1000))
	c.ctx = c.ctx.WithBlockTime(time.Unix(c.now, 0))
	for i := 0; i < 12; i++ {
		switch r.Intn(6) {
		case 0:
			opFeedsEnc(tr, r)
		case 1:
			opTunnelEnc(tr, r)
		case 2:
			opResultEnc(tr, r)
		case 3:
			opTick(tr, r)
		case 4:
			opTickToPrice(tr, r)
		default:
			opHeader(app, tr, r)
		}
	}
	if caseNo%4 == 0 {
		g, err := tssfx.NewGroupWith(app, c.ctx, tssfx.NewAccounts(int64(caseNo)*5+3, 2), uint64(r.Range(1, 2)), bandtsstypes.ModuleName)
		fx.Must(err)
		c.g = g
		g.MakeCurrent(app, c.ctx)
		grp, err := app.TSSKeeper.GetGroup(c.ctx, g.GroupID)
		fx.Must(err)
		c.pubKey = grp.PubKey
		app.Fund(c.ctx, c.user.Address, "uband", sdkmath.NewInt(1_000_000_000))
		_ = authtypes.ModuleName
		c.topUp()
		for i := 0; i < 8; i++ {
			c.request()
		}
	}
}

func main() {
	a := fx.ParseArgs()
	app := fx.NewApp()
	defer app.Close()
	tr := fx.NewTrace(a.Out)
	n := a.Cases
	if n == 0 {
		n = 100
	}
	r := fx.NewRng(a.Seed)
	if a.Mode == "sweep" {
		sweep(tr, a.Seed)
	} else {
		for i := 0; i < n; i++ {
			runCase(app, tr, r.Fork(), i)
		}
	}
	tr.Close()
	tr.WriteStats(a.Stats, nil)
	_ = big.NewInt
}
