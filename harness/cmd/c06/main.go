// c06: correspondence harness for C06 (feeds price aggregation).
// Pure part: MedianValidatorPriceInfos, MedianWeightedPrice, CalculatePricesPowers, CalculatePrice, checkHavePrice.
// End-to-end part: real CalculatePrices on the in-process app with bonded/active/fresh variations.
package main

import (
	"encoding/json"
	"math"
	"time"

	sdkmath "cosmossdk.io/math"

	stakingtypes "github.com/cosmos/cosmos-sdk/x/staking/types"

	bandtesting "github.com/bandprotocol/chain/v3/testing"
	feedsmod "github.com/bandprotocol/chain/v3/x/feeds"
	feedskeeper "github.com/bandprotocol/chain/v3/x/feeds/keeper"
	feedstypes "github.com/bandprotocol/chain/v3/x/feeds/types"

	"verifharness/internal/fx"
)

func genPower(r *fx.Rng) uint64 {
	switch r.Intn(14) {
	case 0:
		return 0
	case 1:
		return 1
	case 2:
		return 2
	case 3:
		return uint64(r.Range(1, 40)) // around the 1/32 section boundaries
	case 4:
		return 32 * uint64(r.Range(1, 5))
	case 5:
		return 1<<63 - 1
	case 6:
		return 1 << 63
	case 7:
		return 1<<63 + 1
	case 8:
		return math.MaxUint64
	case 9:
		return 1_000_000 * uint64(r.Range(1, 200))
	default:
		return uint64(r.Range(1, 1000))
	}
}

type info struct {
	status int
	power  uint64
	price  uint64
	ts     int64
}

func genInfos(r *fx.Rng, tr *fx.Trace) []info {
	n := r.PickInt(0, 1, 1, 2, 2, 3, 3, 4, 5, 6, 8, 12, 13, 15, 20, 29, 33, 50) // beyond 12 entries the library sort leaves insertion sort
	shape := r.Intn(6)
	var l []info
	basePrice := r.PickU64(0, 1, 100, 1000, math.MaxUint64-3)
	for i := 0; i < n; i++ {
		var in info
		switch r.Intn(10) {
		case 0:
			in.status = 1
		case 1:
			in.status = 2
		case 2:
			in.status = r.Intn(4)
		default:
			in.status = 3
		}
		switch shape {
		case 0: // equal powers
			in.power = 100
		case 1: // one dominant (> 50 % / > 97 %)
			if i == 0 {
				in.power = r.PickU64(1000, 100000)
			} else {
				in.power = uint64(r.Range(1, 30))
			}
		case 2: // near-equal
			in.power = 1000 + uint64(r.Intn(3))
		default:
			in.power = genPower(r)
		}
		in.price = basePrice + uint64(r.Intn(4)) // many ties
		if r.Chance(1, 6) {
			in.price = r.U64()
		}
		in.ts = int64(r.PickInt(0, 1, 1, 2, 100, 100, 101)) // many ties
		l = append(l, in)
	}
	tr.Tag("shape" + string(rune('0'+shape)))
	return l
}

func toVPI(l []info) []feedstypes.ValidatorPriceInfo {
	var out []feedstypes.ValidatorPriceInfo
	for _, i := range l {
		out = append(out, feedstypes.NewValidatorPriceInfo(feedstypes.SignalPriceStatus(i.status), sdkmath.NewIntFromUint64(i.power), i.price, i.ts))
	}
	return out
}

func infosJSON(l []info) [][]any {
	out := [][]any{}
	for _, i := range l {
		out = append(out, []any{i.status, fx.U(i.power), fx.U(i.price), fx.I(i.ts)})
	}
	return out
}

func sumPow(l []info, f func(info) bool) sdkmath.Int {
	s := sdkmath.ZeroInt()
	for _, i := range l {
		if f(i) {
			s = s.Add(sdkmath.NewIntFromUint64(i.power))
		}
	}
	return s
}

func pureCase(app *fx.App, tr *fx.Trace, r *fx.Rng) {
	tr.Reset(nil)
	l := genInfos(r, tr)
	vpi := toVPI(l)
	// MedianValidatorPriceInfos
	var price uint64
	errS := fx.Try(func() (err error) { price, err = feedstypes.MedianValidatorPriceInfos(vpi); return })
	tr.Op(fx.M{"op": "median", "infos": infosJSON(l), "out": fx.M{"err": errS, "price": fx.U(price)}})
	// CalculatePricesPowers
	t, a, u, s := feedstypes.CalculatePricesPowers(vpi)
	tr.Op(fx.M{"op": "powers", "infos": infosJSON(l), "out": []any{json.Number(t.String()), json.Number(a.String()), json.Number(u.String()), json.Number(s.String())}})
	// CalculatePrice with quorum around the total
	total := sumPow(l, func(info) bool { return true })
	var q sdkmath.Int
	switch r.Intn(6) {
	case 0:
		q = sdkmath.ZeroInt()
		tr.Tag("quorum-zero")
	case 1:
		q = total
		tr.Tag("quorum-eq-total")
	case 2:
		q = total.AddRaw(1)
		tr.Tag("quorum-total+1")
	case 3:
		q = total.SubRaw(1)
		if q.IsNegative() {
			q = sdkmath.ZeroInt()
		}
		tr.Tag("quorum-total-1")
	default:
		q = sdkmath.NewIntFromUint64(genPower(r))
	}
	var p feedstypes.Price
	errS = fx.Try(func() (err error) {
		p, err = app.FeedsKeeper.CalculatePrice(app.Ctx, feedstypes.Feed{SignalID: "x", Interval: 60}, vpi, q)
		return
	})
	tr.Op(fx.M{"op": "calcPrice", "infos": infosJSON(l), "quorum": json.Number(q.String()),
		"out": fx.M{"err": errS, "status": int(p.Status), "price": fx.U(p.Price)}})
	// MedianWeightedPrice on direct weights (incl. zero weights)
	n := r.Intn(7)
	var wps []feedstypes.WeightedPrice
	wj := [][]any{}
	for i := 0; i < n; i++ {
		w := uint64(r.PickInt(0, 1, 1, 2, 3, 5, 10))
		pr := uint64(r.Range(1, 4))
		wps = append(wps, feedstypes.NewWeightedPrice(sdkmath.NewIntFromUint64(w), pr))
		wj = append(wj, []any{fx.U(w), fx.U(pr)})
	}
	errS = fx.Try(func() (err error) { price, err = feedstypes.MedianWeightedPrice(wps); return })
	if errS != "" {
		price = 0
	}
	tr.Op(fx.M{"op": "mwp", "wps": wj, "out": fx.M{"err": errS, "price": fx.U(price)}})
	// checkHavePrice around the freshness boundary
	now := int64(r.Range(1000, 2000))
	iv := int64(r.PickInt(1, 60, 100))
	ts := now - iv + int64(r.Range(-2, 2))
	st := r.Intn(4)
	hp := feedskeeper.CheckHavePrice(feedstypes.Feed{SignalID: "x", Interval: iv}, feedstypes.ValidatorPrice{SignalPriceStatus: feedstypes.SignalPriceStatus(st), Timestamp: ts}, time.Unix(now, 0))
	tr.Op(fx.M{"op": "havePrice", "status": st, "ts": ts, "now": now, "interval": iv, "out": hp})
}

// e2eCase: the real CalculatePrices with varying bonded / oracle-active / freshness / quorum.
func e2eCase(app *fx.App, tr *fx.Trace, r *fx.Rng) {
	ctx, _ := app.Ctx.CacheContext()
	now := int64(1_700_001_000)
	ctx = ctx.WithBlockTime(time.Unix(now, 0).UTC()).WithBlockHeight(int64(r.Range(3, 50)))
	fk, ok, sk := app.FeedsKeeper, app.OracleKeeper, app.StakingKeeper
	params := fk.GetParams(ctx)
	params.GracePeriod = 1_000_000_000 // no deactivation in this harness (that is C15)
	params.PriceQuorum = r.PickStr("0", "0.000000000000000001", "0.3", "0.5", "0.995", "1")
	fx.Must(fk.SetParams(ctx, params))
	tr.Reset(nil)
	vals := bandtesting.Validators
	// tie mode: two validators end up with exactly equal bonded tokens (100/1/99 + 1 -> 100/1/100), are both
	// oracle-active and report at the same second with different prices: the outcome then rests on the order in
	// which CalculatePrices hands the validators to the median (bonded-power iterator order, a total order)
	tie := r.Chance(1, 4)
	if tie {
		tr.Tag("tied-validators")
	}
	// extra delegations to vary the power vector
	for vi, v := range vals {
		if tie {
			if vi == 2 {
				val, err := sk.GetValidator(ctx, v.ValAddress)
				fx.Must(err)
				first, err := sk.GetValidator(ctx, vals[0].ValAddress)
				fx.Must(err)
				amt := first.GetTokens().Sub(val.GetTokens())
				if amt.IsPositive() {
					app.Fund(ctx, bandtesting.FeePayer.Address, "uband", amt)
					_, err = sk.Delegate(ctx, bandtesting.FeePayer.Address, amt, stakingtypes.Unbonded, val, true)
					fx.Must(err)
				}
			}
			continue
		}
		if r.Chance(1, 2) {
			val, err := sk.GetValidator(ctx, v.ValAddress)
			fx.Must(err)
			amt := sdkmath.NewInt(int64(r.PickInt(1, 1000, 1_000_000, 50_000_000)))
			if r.Chance(1, 8) {
				// a validator whose tokens do not fit a signed 64-bit integer (they do fit the uint64 power)
				amt = sdkmath.NewIntFromUint64(1 << 63).AddRaw(int64(r.PickInt(0, 1, 1000)))
				tr.Tag("power-above-2^63")
			}
			app.Fund(ctx, bandtesting.FeePayer.Address, "uband", amt)
			_, err = sk.Delegate(ctx, bandtesting.FeePayer.Address, amt, stakingtypes.Unbonded, val, true)
			fx.Must(err)
		}
	}
	active := map[int]bool{}
	for i, v := range vals {
		if r.Chance(3, 4) || tie {
			fx.Must(ok.Activate(ctx, v.ValAddress))
			active[i] = true
		}
	}
	jailed := map[int]bool{}
	if r.Chance(1, 4) {
		i := r.Intn(len(vals))
		val, err := sk.GetValidator(ctx, vals[i].ValAddress)
		fx.Must(err)
		cons, err := val.GetConsAddr()
		fx.Must(err)
		fx.Must(sk.Jail(ctx, cons))
		jailed[i] = true
		tr.Tag("jailed-validator")
	}
	feeds := []feedstypes.Feed{}
	ids := []string{"CS:A", "CS:B", "CS:C"}
	nf := r.Range(1, 3)
	for i := 0; i < nf; i++ {
		feeds = append(feeds, feedstypes.Feed{SignalID: ids[i], Power: 1000, Interval: int64(r.PickInt(1, 60, 100))})
	}
	fk.SetCurrentFeeds(ctx, feeds)
	pricesOf := make([]fx.M, len(vals))
	for i, v := range vals {
		pricesOf[i] = fx.M{}
		if r.Chance(1, 6) {
			continue // no price list at all
		}
		var vps []feedstypes.ValidatorPrice
		for _, f := range feeds {
			if r.Chance(1, 6) {
				continue
			}
			ts := now - f.Interval + int64(r.PickInt(-2, -1, 0, 0, 1, 5)) // around the freshness boundary
			if r.Chance(1, 3) || tie {
				ts = now
			}
			st := r.PickInt(0, 1, 2, 3, 3, 3, 3)
			pr := uint64(r.Range(90, 110))
			if tie && i != 1 {
				st = 3
				pr = uint64(90 + 10*i + r.Range(0, 5))
			}
			vps = append(vps, feedstypes.ValidatorPrice{SignalPriceStatus: feedstypes.SignalPriceStatus(st), SignalID: f.SignalID, Price: pr, Timestamp: ts, BlockHeight: 1})
			pricesOf[i][f.SignalID] = []any{st, fx.U(pr), ts}
		}
		fx.Must(fk.SetValidatorPriceList(ctx, v.ValAddress, vps))
	}
	// env: validators in IterateBondedValidatorsByPower order, then the rest
	var envVals []fx.M
	seen := map[int]bool{}
	idxOf := func(op string) int {
		for i, v := range vals {
			if v.ValAddress.String() == op {
				return i
			}
		}
		return -1
	}
	fx.Must(sk.IterateBondedValidatorsByPower(ctx, func(_ int64, val stakingtypes.ValidatorI) bool {
		i := idxOf(val.GetOperator())
		if i < 0 {
			return false
		}
		seen[i] = true
		envVals = append(envVals, fx.M{"power": json.Number(val.GetTokens().String()), "bonded": true,
			"active": ok.GetValidatorStatus(ctx, vals[i].ValAddress).IsActive, "prices": pricesOf[i]})
		return false
	}))
	for i := range vals {
		if !seen[i] {
			val, _ := sk.GetValidator(ctx, vals[i].ValAddress)
			envVals = append(envVals, fx.M{"power": json.Number(val.GetTokens().String()), "bonded": false,
				"active": ok.GetValidatorStatus(ctx, vals[i].ValAddress).IsActive, "prices": pricesOf[i]})
		}
	}
	// the validator-set changes of the block (here: the jailing) are applied by the staking end-blocker, which the application
	// runs BEFORE the feeds end-blocker: the bonded pool the quorum is taken from no longer holds a jailed validator's tokens
	specCtx, _ := ctx.CacheContext()
	_, err := sk.EndBlocker(specCtx)
	fx.Must(err)
	tbt, err := sk.TotalBondedTokens(specCtx)
	fx.Must(err)
	stakingFirst := true
	for _, mod := range app.EndBlockOrderForVerif() {
		if mod == feedstypes.ModuleName {
			stakingFirst = false
			break
		}
		if mod == stakingtypes.ModuleName {
			break
		}
	}
	if stakingFirst {
		_, err = sk.EndBlocker(ctx)
		fx.Must(err)
	}
	defer func() {
		if !stakingFirst {
			_, _ = sk.EndBlocker(ctx)
		}
	}()
	quorum := sdkmath.LegacyNewDecFromInt(tbt).Mul(sdkmath.LegacyMustNewDecFromStr(params.PriceQuorum)).TruncateInt()
	var errS string
	if r.Chance(1, 3) {
		// the whole end-blocker on a block where the current feed list is recomputed: the signal totals are set so that the
		// new list differs from the old one (other signals, other intervals); the end-of-block prices are those of the NEW
		// list (the list this block publishes), with the new intervals deciding which validator prices are fresh
		ctx = ctx.WithBlockHeight(params.CurrentFeedsUpdateInterval * int64(r.Range(1, 3)))
		for _, id := range []string{"CS:A", "CS:B", "CS:C", "CS:D"} {
			if r.Chance(2, 3) {
				fk.SetSignalTotalPower(ctx, feedstypes.NewSignal(id, params.PowerStepThreshold*int64(r.PickInt(1, 2, 10, 60, 3000))))
			}
		}
		feeds = fk.CalculateNewCurrentFeeds(ctx)
		tr.Tag("end-block-with-feed-update")
		errS = fx.Try(func() error { return feedsmod.EndBlocker(ctx, fk) })
	} else {
		errS = fx.Try(func() error { return fk.CalculatePrices(ctx) })
	}
	for _, f := range feeds {
		p := fk.GetPrice(ctx, f.SignalID)
		out := fx.M{"err": "", "status": int(p.Status), "price": fx.U(p.Price)}
		failed := errS != "" && p.Status == feedstypes.PRICE_STATUS_NOT_IN_CURRENT_FEEDS // first feed without a stored price
		if failed {
			out = fx.M{"err": errS, "status": 0, "price": 0}
		}
		tr.Op(fx.M{"op": "feed", "feed": f.SignalID, "now": now, "interval": f.Interval, "quorum": json.Number(quorum.String()),
			"vals": envVals, "out": out})
		if failed {
			break // the loop in CalculatePrices stopped at the first failing feed
		}
	}
}

func main() {
	a := fx.ParseArgs()
	app := fx.NewApp()
	defer app.Close()
	tr := fx.NewTrace(a.Out)
	n := a.Cases
	if n == 0 {
		n = 20000
		if a.Tier == "thorough" {
			n = 400000
		}
	}
	r := fx.NewRng(a.Seed)
	for i := 0; i < n; i++ {
		if i%10 == 9 {
			e2eCase(app, tr, r.Fork())
		} else {
			pureCase(app, tr, r.Fork())
		}
	}
	tr.Close()
	tr.WriteStats(a.Stats, nil)
}
