// c07: correspondence harness for C07 (feeds votes / signal totals / current feeds).
// Drives the REAL feeds msg server, restake keeper and CalculateNewCurrentFeeds on the in-process app.
package main

import (
	"encoding/binary"
	"encoding/json"
	"math"
	"os"
	"strings"

	sdkmath "cosmossdk.io/math"
	storetypes "cosmossdk.io/store/types"

	sdk "github.com/cosmos/cosmos-sdk/types"
	minttypes "github.com/cosmos/cosmos-sdk/x/mint/types"

	bandtesting "github.com/bandprotocol/chain/v3/testing"
	feedsmod "github.com/bandprotocol/chain/v3/x/feeds"
	feedskeeper "github.com/bandprotocol/chain/v3/x/feeds/keeper"
	feedstypes "github.com/bandprotocol/chain/v3/x/feeds/types"
	restakekeeper "github.com/bandprotocol/chain/v3/x/restake/keeper"
	restaketypes "github.com/bandprotocol/chain/v3/x/restake/types"

	"verifharness/internal/fx"
)

var idPool = []string{"a", "b", "c", "CS:BTC-USD", "CS:ETH-USD", "zz", "ab", "ba", "A", strings.Repeat("x", 32), strings.Repeat("y", 32), "~", "!"}

type voterT struct {
	acc bandtesting.Account
	idx int
}

type caseT struct {
	app     *fx.App
	ctx     sdk.Context
	tr      *fx.Trace
	r       *fx.Rng
	fms     feedstypes.MsgServer
	rms     restaketypes.MsgServer
	voters  []voterT
	step    int64
	maxN    uint64
	updates int64
}

func (c *caseT) totalPower(v voterT) sdkmath.Int {
	p, err := c.app.RestakeKeeper.GetTotalPower(c.ctx, v.acc.Address)
	fx.Must(err)
	return p
}

func (c *caseT) dump(v voterT) fx.M {
	fk := c.app.FeedsKeeper
	store := c.ctx.KVStore(c.app.GetKey(feedstypes.StoreKey))
	// signal-total-power store, iteration (key) order = id order
	totals := [][]any{}
	it := storetypes.KVStorePrefixIterator(store, feedstypes.SignalTotalPowerStoreKeyPrefix)
	for ; it.Valid(); it.Next() {
		id := string(it.Key()[1:])
		s, err := fk.GetSignalTotalPower(c.ctx, id)
		fx.Must(err)
		totals = append(totals, []any{s.ID, fx.I(s.Power)})
	}
	it.Close()
	// raw by-power index in reverse key order (the order CalculateNewCurrentFeeds walks)
	index := [][]any{}
	rit := storetypes.KVStoreReversePrefixIterator(store, feedstypes.SignalTotalPowerByPowerIndexKeyPrefix)
	for ; rit.Valid(); rit.Next() {
		k := rit.Key()
		pw := int64(binary.BigEndian.Uint64(k[1:9]))
		n := int(k[9])
		idb := make([]byte, n)
		for i := 0; i < n; i++ {
			idb[i] = ^k[10+i]
		}
		index = append(index, []any{fx.I(pw), string(idb)})
	}
	rit.Close()
	lock := sdkmath.ZeroInt()
	if l, found := c.app.RestakeKeeper.GetLock(c.ctx, v.acc.Address, feedstypes.ModuleName); found {
		lock = l.Power
	}
	return fx.M{"lock": json.Number(lock.String()), "totals": totals, "index": index}
}

func (c *caseT) vote(v voterT, sigs []feedstypes.Signal) {
	tp := c.totalPower(v)
	msg := feedstypes.NewMsgVote(v.acc.Address.String(), sigs)
	errS := fx.Try(msg.ValidateBasic)
	if errS == "" {
		errS = fx.Atomically(c.ctx, func(ctx sdk.Context) error {
			_, err := c.fms.Vote(ctx, msg)
			return err
		})
	}
	out := c.dump(v)
	out["err"] = errS
	js := [][]any{}
	for _, s := range sigs {
		js = append(js, []any{s.ID, fx.I(s.Power)})
	}
	c.tr.Op(fx.M{"op": "vote", "voter": v.idx, "signals": js, "env": fx.M{"totalPower": json.Number(tp.String())}, "out": out})
}

func (c *caseT) unstake(v voterT, amt int64) {
	tp := c.totalPower(v)
	staked := c.app.RestakeKeeper.GetStakedPower(c.ctx, v.acc.Address)
	if staked.LT(sdkmath.NewInt(amt)) {
		return // not an unstake the model speaks about (ErrStakeNotEnough)
	}
	msg := &restaketypes.MsgUnstake{StakerAddress: v.acc.Address.String(), Coins: sdk.NewCoins(sdk.NewInt64Coin("uband", amt))}
	errS := fx.Atomically(c.ctx, func(ctx sdk.Context) error {
		_, err := c.rms.Unstake(ctx, msg)
		return err
	})
	c.tr.Op(fx.M{"op": "unstake", "voter": v.idx, "amount": fx.I(amt), "env": fx.M{"totalPower": json.Number(tp.String())},
		"out": fx.M{"ok": errS == "", "err": errS}})
}

// reimport: export the feeds genesis, validate it and initialise a branch of the store from it: the signal totals it
// recomputes from the votes must be the totals the chain had (observed through the same dump)
func (c *caseT) reimport() {
	cctx, _ := c.ctx.CacheContext()
	saved := c.ctx
	e := fx.Try(func() error {
		g := c.app.FeedsKeeper.ExportGenesis(cctx)
		if err := g.Validate(); err != nil {
			return err
		}
		wipe(cctx.KVStore(c.app.GetKey(feedstypes.StoreKey)))
		c.app.FeedsKeeper.InitGenesis(cctx, *g)
		return nil
	})
	c.ctx = cctx
	out := c.dump(c.voters[0])
	c.ctx = saved
	out["err"] = e
	c.tr.Op(fx.M{"op": "reimport", "out": out})
}

func (c *caseT) updateFeeds() {
	// the REAL end-blocker of a feed-update block (a height divisible by CurrentFeedsUpdateInterval); what the chain
	// then holds as its current feeds is read back from the store
	iv := c.app.FeedsKeeper.GetParams(c.ctx).CurrentFeedsUpdateInterval
	c.updates++
	h := iv * (1000 + c.updates)
	ctx := c.ctx.WithBlockHeight(h)
	e := fx.Try(func() error { return feedsmod.EndBlocker(ctx, c.app.FeedsKeeper) })
	cur := c.app.FeedsKeeper.GetCurrentFeeds(ctx)
	l := [][]any{}
	for _, f := range cur.Feeds {
		l = append(l, []any{f.SignalID, fx.I(f.Power), fx.I(f.Interval)})
	}
	c.tr.Op(fx.M{"op": "updateFeeds", "height": h, "out": fx.M{"feeds": l, "err": e, "lastUpdateBlock": cur.LastUpdateBlock}})
}

func (c *caseT) mintStake(v voterT, amt sdkmath.Int) {
	if !amt.IsPositive() {
		return
	}
	coins := sdk.NewCoins(sdk.NewCoin("uband", amt))
	fx.Must(c.app.BankKeeper.MintCoins(c.ctx, minttypes.ModuleName, coins))
	fx.Must(c.app.BankKeeper.SendCoinsFromModuleToAccount(c.ctx, minttypes.ModuleName, v.acc.Address, coins))
	_, err := c.rms.Stake(c.ctx, &restaketypes.MsgStake{StakerAddress: v.acc.Address.String(), Coins: coins})
	fx.Must(err)
}

// genPower picks a signal power biased to the boundaries that matter: the threshold, the
// voter's remaining power, and the int64 limits.
func (c *caseT) genPower(remaining int64) int64 {
	r := c.r
	switch r.Intn(12) {
	case 0:
		return 1
	case 1:
		return c.step - 1
	case 2:
		return c.step
	case 3:
		return c.step + 1
	case 4:
		return c.step*int64(r.Range(2, 5)) + int64(r.Range(-1, 1))
	case 5:
		if remaining > 0 {
			return remaining
		}
		return 1
	case 6:
		if remaining > 1 {
			return remaining/2 + 1
		}
		return 2
	case 7:
		return remaining + 1
	case 8:
		return r.PickI64(math.MaxInt64, math.MaxInt64-1, 1<<62, 1<<62+1, 1<<63-2)
	default:
		if remaining > 1 {
			return 1 + int64(r.U64()%uint64(remaining))
		}
		return int64(r.Range(1, 3))
	}
}

func (c *caseT) genVote(v voterT) []feedstypes.Signal {
	r := c.r
	n := r.PickInt(0, 1, 1, 2, 2, 3, 3, 4, int(c.maxN), int(c.maxN)+1)
	tp := c.totalPower(v)
	remaining := int64(math.MaxInt64)
	if tp.IsInt64() {
		remaining = tp.Int64()
	}
	perm := r.Perm(len(idPool))
	var sigs []feedstypes.Signal
	for i := 0; i < n && i < len(idPool); i++ {
		p := c.genPower(remaining)
		if p <= 0 {
			p = 1
		}
		if r.Chance(2, 3) && remaining > 0 && p > remaining {
			p = remaining // keep most votes affordable
		}
		sigs = append(sigs, feedstypes.Signal{ID: idPool[perm[i]], Power: p})
		if remaining >= p {
			remaining -= p
		} else {
			remaining = 0
		}
	}
	// int64-wrap stream: powers whose true sum is 2^64 + small
	if r.Chance(1, 25) {
		c.tr.Tag("wrap-sum-vote")
		k := int64(r.Range(1, 3))
		sigs = []feedstypes.Signal{{ID: "a", Power: math.MaxInt64}, {ID: "b", Power: math.MaxInt64}, {ID: "c", Power: 1 + k}}
	}
	// malformed stream (~12 %)
	if len(sigs) > 0 && r.Chance(1, 8) {
		i := r.Intn(len(sigs))
		switch r.Intn(5) {
		case 0:
			sigs[i].Power = 0
			c.tr.Tag("bad-zero-power")
		case 1:
			sigs[i].Power = -int64(r.Range(1, 5))
			c.tr.Tag("bad-neg-power")
		case 2:
			sigs[i].ID = ""
			c.tr.Tag("bad-empty-id")
		case 3:
			sigs[i].ID = strings.Repeat("q", 33)
			c.tr.Tag("bad-long-id")
		case 4:
			sigs = append(sigs, feedstypes.Signal{ID: sigs[i].ID, Power: 1})
			c.tr.Tag("bad-dup-id")
		}
	}
	return sigs
}

// wipe empties a module store (on a branch): the import then starts from nothing but the genesis, as on a new chain
func wipe(st storetypes.KVStore) {
	var keys [][]byte
	it := st.Iterator(nil, nil)
	for ; it.Valid(); it.Next() {
		keys = append(keys, append([]byte{}, it.Key()...))
	}
	it.Close()
	for _, k := range keys {
		st.Delete(k)
	}
}

func runCase(app *fx.App, tr *fx.Trace, r *fx.Rng) {
	ctx, _ := app.Ctx.CacheContext()
	c := &caseT{app: app, ctx: ctx, tr: tr, r: r,
		fms: feedskeeper.NewMsgServerImpl(app.FeedsKeeper), rms: restakekeeper.NewMsgServerImpl(app.RestakeKeeper)}
	c.step = r.PickI64(1, 2, 10, 1000, 1_000_000_000)
	c.maxN = []uint64{0, 1, 2, 3, 5, 300, 1<<63 - 1, 1 << 63, math.MaxUint64}[r.PickInt(0, 1, 2, 3, 4, 1, 2, 3, 4, 5, 6, 7, 8)]
	minI := r.PickI64(1, 60, 100, 3600)
	maxI := r.PickI64(1, 60, 3600, 3601, 100000)
	p := app.FeedsKeeper.GetParams(ctx)
	p.PowerStepThreshold, p.MaxCurrentFeeds, p.MinInterval, p.MaxInterval = c.step, c.maxN, minI, maxI
	fx.Must(app.FeedsKeeper.SetParams(ctx, p))
	fx.Must(app.RestakeKeeper.SetParams(ctx, restaketypes.Params{AllowedDenoms: []string{"uband"}}))
	for _, a := range []bandtesting.Account{bandtesting.Alice, bandtesting.Bob, bandtesting.Carol, bandtesting.Owner} {
		c.voters = append(c.voters, voterT{acc: a, idx: app.Index(a.Address)})
	}
	// stakes: zero, around the threshold, large (all together < 2^62 so per-signal totals stay in int64)
	for _, v := range c.voters {
		var amt sdkmath.Int
		switch r.Intn(6) {
		case 0:
			amt = sdkmath.ZeroInt()
		case 1:
			amt = sdkmath.NewInt(c.step)
		case 2:
			amt = sdkmath.NewInt(c.step*3 + int64(r.Range(0, 2)))
		case 3:
			amt = sdkmath.NewInt(int64(r.Range(1, 50)))
		case 4:
			amt = sdkmath.NewInt(1 << 60)
		default:
			amt = sdkmath.NewInt(int64(r.U64() % (1 << 40)))
		}
		c.mintStake(v, amt)
	}
	tr.Reset(fx.M{"params": fx.M{"max": c.maxN, "step": fx.I(c.step), "minI": fx.I(minI), "maxI": fx.I(maxI)}})
	nops := r.Range(3, 14)
	for i := 0; i < nops; i++ {
		v := c.voters[r.Intn(len(c.voters))]
		switch k := r.Intn(10); {
		case k < 6:
			c.vote(v, c.genVote(v))
		case k < 8:
			c.updateFeeds()
			if r.Chance(1, 3) {
				c.reimport()
			}
		default:
			staked := c.app.RestakeKeeper.GetStakedPower(c.ctx, v.acc.Address)
			if staked.IsPositive() && staked.IsInt64() {
				lock := int64(0)
				if l, ok := c.app.RestakeKeeper.GetLock(c.ctx, v.acc.Address, feedstypes.ModuleName); ok && l.Power.IsInt64() {
					lock = l.Power.Int64()
				}
				tp := c.totalPower(v)
				slack := tp.Sub(sdkmath.NewInt(lock))
				amt := int64(1)
				switch r.Intn(4) {
				case 0:
					if slack.IsInt64() && slack.Int64() > 0 {
						amt = slack.Int64() // exactly down to the lock
					}
				case 1:
					if slack.IsInt64() {
						amt = slack.Int64() + 1 // one below the lock
					}
				case 2:
					amt = staked.Int64()
				default:
					amt = 1 + int64(r.U64()%uint64(staked.Int64()))
				}
				if amt >= 1 {
					c.unstake(v, amt)
				}
			}
		}
	}
	c.updateFeeds()
}

func main() {
	a := fx.ParseArgs()
	app := fx.NewApp()
	defer app.Close()
	tr := fx.NewTrace(a.Out)
	n := a.Cases
	if n == 0 {
		n = 400
		if a.Tier == "thorough" {
			n = 6000
		}
	}
	r := fx.NewRng(a.Seed)
	for i := 0; i < n; i++ {
		runCase(app, tr, r.Fork())
	}
	tr.Close()
	tr.WriteStats(a.Stats, nil)
	_ = os.Stdout
}
