// c02: twin replicas.  Two BandApp instances built from the same genesis execute the same generated block sequence
// through the real FinalizeBlock/Commit (signed transactions of many message types with adversarial field values,
// module parameters moved to accepted extremes between blocks).  Per block the app hashes and per-transaction
// (code, codespace, gas used, data) must agree and FinalizeBlock must neither fail nor panic.
package main

import (
	"bytes"
	"crypto/sha256"
	"encoding/hex"
	"fmt"
	"io"
	"math"
	"math/rand"
	"os"
	"os/exec"
	"reflect"
	"strings"
	"time"

	sdkmath "cosmossdk.io/math"
	abci "github.com/cometbft/cometbft/abci/types"
	cmtproto "github.com/cometbft/cometbft/proto/tendermint/types"
	sdk "github.com/cosmos/cosmos-sdk/types"
	banktypes "github.com/cosmos/cosmos-sdk/x/bank/types"
	slashingtypes "github.com/cosmos/cosmos-sdk/x/slashing/types"
	stakingtypes "github.com/cosmos/cosmos-sdk/x/staking/types"

	tsslib "github.com/bandprotocol/chain/v3/pkg/tss"
	bandtesting "github.com/bandprotocol/chain/v3/testing"
	bandtsstypes "github.com/bandprotocol/chain/v3/x/bandtss/types"
	feedstypes "github.com/bandprotocol/chain/v3/x/feeds/types"
	globalfeetypes "github.com/bandprotocol/chain/v3/x/globalfee/types"
	oracletypes "github.com/bandprotocol/chain/v3/x/oracle/types"
	restaketypes "github.com/bandprotocol/chain/v3/x/restake/types"
	tsstypes "github.com/bandprotocol/chain/v3/x/tss/types"
	tunnelkeeper "github.com/bandprotocol/chain/v3/x/tunnel/keeper"
	tunneltypes "github.com/bandprotocol/chain/v3/x/tunnel/types"

	"verifharness/internal/fx"
	"verifharness/internal/tssfx"
)

var statsPath string

const blockTimeout = 60 * time.Second

var debugLogs = os.Getenv("C02_DEBUG") != ""

func hx(b []byte) string { return hex.EncodeToString(b) }

type twin struct {
	a, b    *fx.App
	r       *fx.Rng
	height  int64
	now     time.Time
	seqs    map[string]uint64
	powers  []int64 // consensus powers reported in DecidedLastCommit
	accs    []bandtesting.Account
	grp     *tssfx.Group // the current bandtss signing group (same on both replicas), or nil
	pickFee int
	lastDel map[string]int // account -> validator index of its most recent MsgDelegate
	// infractions: absent votes are reported, double-sign evidence arrives, and the downtime window is short
	infractions bool
	r0          int  // fee payer funding of the pre-created tunnel
	exactSeq    bool // directed scenarios: never sign with a wrong account sequence
}

func (t *twin) accNum(app *fx.App, addr sdk.AccAddress) (uint64, bool) {
	ctx := app.BaseApp.NewUncachedContext(false, cmtproto.Header{})
	acc := app.AccountKeeper.GetAccount(ctx, addr)
	if acc == nil {
		return 0, false
	}
	return acc.GetAccountNumber(), true
}

func (t *twin) sign(acct bandtesting.Account, gas uint64, msgs ...sdk.Msg) []byte {
	an, ok := t.accNum(t.a, acct.Address)
	if !ok {
		return nil
	}
	ctx := t.a.BaseApp.NewUncachedContext(false, cmtproto.Header{})
	seq := t.a.AccountKeeper.GetAccount(ctx, acct.Address).GetSequence()
	if !t.exactSeq && t.r.Chance(1, 40) {
		seq += uint64(t.r.Range(1, 3))
	}
	tx, err := bandtesting.GenSignedMockTx(rand.New(rand.NewSource(int64(t.r.U64()>>1))), t.a.GetTxConfig(), msgs,
		sdk.NewCoins(sdk.NewInt64Coin("uband", int64(gas/40+1))), gas, bandtesting.ChainID, []uint64{an}, []uint64{seq}, acct.PrivKey)
	if err != nil {
		return nil
	}
	bz, err := t.a.GetTxConfig().TxEncoder()(tx)
	if err != nil {
		return nil
	}
	return bz
}

func coins(r *fx.Rng) sdk.Coins {
	switch r.Intn(5) {
	case 0:
		return sdk.NewCoins()
	case 1:
		return sdk.NewCoins(sdk.NewInt64Coin("uband", int64(r.Range(1, 1_000_000))))
	default:
		return sdk.NewCoins(sdk.NewInt64Coin("uband", int64(r.PickInt(1, 10, 1000, 1_000_000))))
	}
}

func rstr(r *fx.Rng) string {
	return r.PickStr("", "a", "CS:BTC-USD", "CS:ETH-USD", string(r.Bytes(r.Range(1, 40))), "x", "\x00", "🙂")
}

// one random message of the band modules with its signer: mostly well-formed, a quarter adversarial
func (t *twin) randMsg() (sdk.Msg, bandtesting.Account) {
	r := t.r
	adv := r.Chance(1, 4)
	acct := t.accs[r.Intn(len(t.accs))]
	vi := r.Intn(len(bandtesting.Validators))
	val := bandtesting.Validators[vi]
	big := sdk.NewCoins(sdk.NewInt64Coin("uband", 1_000_000_000))
	sid := func() string {
		if adv {
			return rstr(r)
		}
		return r.PickStr("CS:BTC-USD", "CS:ETH-USD", "CS:BAND-USD", "CS:ATOM-USD", "CS:SOL-USD")
	}
	if t.grp != nil && r.Chance(1, 3) {
		if m, a, ok := t.tssMsg(adv); ok {
			return m, a
		}
	}
	switch r.Intn(31) {
	case 0, 1:
		if adv {
			return oracletypes.NewMsgRequestData(oracletypes.OracleScriptID(r.Range(0, 5)), r.Bytes(r.Range(0, 20)), uint64(r.Range(0, 4)), uint64(r.Range(0, 4)), rstr(r), coins(r),
				uint64(r.PickInt(0, 1, 40000, 100000)), uint64(r.PickInt(0, 1, 300000)), acct.Address, oracletypes.Encoder(r.Range(0, 3))), acct
		}
		ask := r.Range(1, 3)
		return oracletypes.NewMsgRequestData(oracletypes.OracleScriptID(r.PickInt(1, 1, 1, 1, 2, 3)), []byte("beeb"), uint64(ask), uint64(r.Range(1, ask)), "cid", big,
			40000, 300000, acct.Address, oracletypes.Encoder(r.Range(0, 2))), acct
	case 2, 3:
		var rr []oracletypes.RawReport
		if adv {
			for i := 0; i < r.Range(0, 4); i++ {
				rr = append(rr, oracletypes.NewRawReport(oracletypes.ExternalID(r.Range(1, 4)), uint32(r.PickInt(0, 1, 255)), r.Bytes(r.Range(0, 20))))
			}
		} else {
			for i := 1; i <= 3; i++ {
				rr = append(rr, oracletypes.NewRawReport(oracletypes.ExternalID(i), uint32(r.PickInt(0, 0, 0, 1)), []byte("answer"+fmt.Sprint(i))))
			}
		}
		rid := uint64(r.Range(0, 8))
		qctx := t.a.BaseApp.NewUncachedContext(false, cmtproto.Header{})
		if cnt := t.a.OracleKeeper.GetRequestCount(qctx); cnt > 0 && r.Chance(3, 4) {
			rid = cnt - uint64(r.Intn(3)) // mostly one of the latest requests, so that requests do get resolved
			if rid < 1 || rid > cnt {
				rid = cnt
			}
		}
		return oracletypes.NewMsgReportData(oracletypes.RequestID(rid), rr, val.ValAddress), val
	case 4:
		return oracletypes.NewMsgActivate(val.ValAddress), val
	case 5:
		return oracletypes.NewMsgCreateDataSource(rstr(r), rstr(r), r.Bytes(r.Range(0, 60)), coins(r), acct.Address, acct.Address, acct.Address), acct
	case 6, 7:
		var sg []feedstypes.Signal
		if adv {
			for i := 0; i < r.Range(0, 4); i++ {
				sg = append(sg, feedstypes.NewSignal(rstr(r), int64(r.PickI64(0, 1, 1000, 1_000_000, math.MaxInt64, -1))))
			}
		} else {
			seen := map[string]bool{}
			for i := 0; i < r.Range(0, 4); i++ {
				id := sid()
				if !seen[id] {
					seen[id] = true
					sg = append(sg, feedstypes.NewSignal(id, int64(r.PickI64(1, 1000, 1_000_000, 30_000_000))))
				}
			}
		}
		return feedstypes.NewMsgVote(acct.Address.String(), sg), acct
	case 8, 9:
		var sp []feedstypes.SignalPrice
		seen := map[string]bool{}
		for i := 0; i < r.Range(0, 4); i++ {
			id := sid()
			if adv {
				sp = append(sp, feedstypes.NewSignalPrice(feedstypes.SignalPriceStatus(r.Range(0, 3)), id, r.U64()>>uint(r.Intn(64))))
			} else if !seen[id] {
				seen[id] = true
				if r.Chance(1, 5) {
					sp = append(sp, feedstypes.NewSignalPrice(feedstypes.SignalPriceStatus(r.Range(1, 2)), id, 0))
				} else {
					sp = append(sp, feedstypes.NewSignalPrice(feedstypes.SIGNAL_PRICE_STATUS_AVAILABLE, id, uint64(r.Range(1, 100000))))
				}
			}
		}
		return feedstypes.NewMsgSubmitSignalPrices(val.ValAddress.String(), t.now.Unix()+int64(r.Range(-5, 5)), sp), val
	case 10:
		return restaketypes.NewMsgStake(acct.Address, coins(r)), acct
	case 11:
		return restaketypes.NewMsgUnstake(acct.Address, coins(r)), acct
	case 12, 13:
		var sd []tunneltypes.SignalDeviation
		for i := 0; i < r.Range(0, 3); i++ {
			sd = append(sd, tunneltypes.NewSignalDeviation(sid(), uint64(r.Range(0, 500)), uint64(r.Range(0, 1000))))
		}
		var m *tunneltypes.MsgCreateTunnel
		var err error
		if adv {
			m, err = tunneltypes.NewMsgCreateTSSTunnel(sd, uint64(r.PickInt(0, 1, 60, 1000)), rstr(r), rstr(r), feedstypes.Encoder(r.Range(0, 2)), coins(r), acct.Address.String())
		} else {
			sd = []tunneltypes.SignalDeviation{tunneltypes.NewSignalDeviation("CS:BTC-USD", 100, 300), tunneltypes.NewSignalDeviation("CS:ETH-USD", 50, 200)}[:r.Range(1, 2)]
			m, err = tunneltypes.NewMsgCreateTSSTunnel(sd, uint64(r.PickInt(60, 60, 120)), "chain-1", "0xabc", feedstypes.Encoder(r.Range(1, 2)), big, acct.Address.String())
		}
		if err != nil {
			return nil, acct
		}
		return m, acct
	case 14:
		return tunneltypes.NewMsgActivate(uint64(r.Range(0, 4)), acct.Address.String()), acct
	case 15:
		return tunneltypes.NewMsgDeactivate(uint64(r.Range(0, 4)), acct.Address.String()), acct
	case 16:
		return tunneltypes.NewMsgTriggerTunnel(uint64(r.Range(0, 4)), acct.Address.String()), acct
	case 17:
		return tunneltypes.NewMsgDepositToTunnel(uint64(r.Range(0, 4)), coins(r), acct.Address.String()), acct
	case 18:
		return tunneltypes.NewMsgWithdrawFromTunnel(uint64(r.Range(0, 4)), coins(r), acct.Address.String()), acct
	case 19:
		if r.Bool() {
			return tsstypes.NewMsgResetDE(acct.Address.String()), acct
		}
		return bandtsstypes.NewMsgActivate(acct.Address.String(), 1), acct
	case 20:
		var c tsstypes.Content = tsstypes.NewTextSignatureOrder(r.Bytes(r.Range(0, 30)))
		if r.Bool() {
			c = feedstypes.NewFeedSignatureOrder([]string{sid(), sid()}, feedstypes.Encoder(r.Range(0, 2)))
		}
		m, err := bandtsstypes.NewMsgRequestSignature(c, coins(r), acct.Address.String())
		if err != nil {
			return nil, acct
		}
		return m, acct
	case 24:
		var des []tsstypes.DE
		for i := 0; i < r.Range(0, 3); i++ {
			d, e := append([]byte{1}, r.Bytes(31)...), append([]byte{2}, r.Bytes(31)...)
			if adv {
				des = append(des, tsstypes.NewDE(r.Bytes(r.PickInt(0, 32, 33)), r.Bytes(33)))
			} else {
				des = append(des, tsstypes.NewDE(tsslib.Scalar(d).Point(), tsslib.Scalar(e).Point()))
			}
		}
		return tsstypes.NewMsgSubmitDEs(des, acct.Address.String()), acct
	case 25:
		sd := []tunneltypes.SignalDeviation{tunneltypes.NewSignalDeviation(sid(), uint64(r.Range(0, 500)), uint64(r.Range(0, 1000))), tunneltypes.NewSignalDeviation(sid(), 100, 300)}[:r.Range(1, 2)]
		return tunneltypes.NewMsgUpdateSignalsAndInterval(uint64(r.Range(0, 4)), sd, uint64(r.PickInt(1, 60, 120, 100000)), acct.Address.String()), acct
	case 26:
		if r.Bool() {
			// the owner renames an oracle script (or a data source) and keeps its code: "[do-not-modify]" must leave the stored file alone
			own := bandtesting.Owner
			if r.Bool() {
				return oracletypes.NewMsgEditOracleScript(oracletypes.OracleScriptID(r.PickInt(1, 1, 1, 2, 3, 4)), r.PickStr("renamed", oracletypes.DoNotModify), oracletypes.DoNotModify,
					oracletypes.DoNotModify, oracletypes.DoNotModify, oracletypes.DoNotModifyBytes, own.Address, own.Address), own
			}
			return oracletypes.NewMsgEditDataSource(oracletypes.DataSourceID(r.Range(1, 3)), r.PickStr("renamed", oracletypes.DoNotModify), oracletypes.DoNotModify,
				oracletypes.DoNotModifyBytes, coins(r), own.Address, own.Address, own.Address), own
		}
		return oracletypes.NewMsgEditDataSource(oracletypes.DataSourceID(r.Range(0, 5)), rstr(r), rstr(r), r.Bytes(r.Range(0, 40)), coins(r), acct.Address, acct.Address, acct.Address), acct
	case 27:
		// authority-only messages sent by an ordinary account
		if r.Bool() {
			return &globalfeetypes.MsgUpdateParams{Authority: acct.Address.String(), Params: globalfeetypes.DefaultParams()}, acct
		}
		return oracletypes.NewMsgUpdateParams(acct.Address.String(), oracletypes.DefaultParams()), acct
	case 21:
		return banktypes.NewMsgSend(acct.Address, t.accs[r.Intn(len(t.accs))].Address, coins(r)), acct
	case 22:
		t.lastDel[acct.Address.String()] = vi
		return stakingtypes.NewMsgDelegate(acct.Address.String(), val.ValAddress.String(), sdk.NewInt64Coin("uband", int64(r.PickInt(1, 1000, 1_000_000, 50_000_000)))), acct
	case 28, 29:
		// moving a delegation between validators (the restake hooks see the source shrink and the destination grow; a later
		// slash of the source reaches the moved part through staking.SlashRedelegation)
		dst := bandtesting.Validators[r.Intn(len(bandtesting.Validators))]
		if i, ok := t.lastDel[acct.Address.String()]; ok && r.Chance(3, 4) {
			val = bandtesting.Validators[i] // mostly from a validator the account has delegated to
		} else {
			for i, v := range bandtesting.Validators {
				if v.Address.Equals(acct.Address) && r.Chance(3, 4) {
					val = bandtesting.Validators[i] // a validator account moves (part of) its self-delegation
				}
			}
		}
		return stakingtypes.NewMsgBeginRedelegate(acct.Address.String(), val.ValAddress.String(), dst.ValAddress.String(), sdk.NewInt64Coin("uband", int64(r.PickInt(1, 1000, 1_000_000, 50_000_000)))), acct
	case 30:
		return slashingtypes.NewMsgUnjail(val.ValAddress.String()), val
	default:
		return stakingtypes.NewMsgUndelegate(acct.Address.String(), val.ValAddress.String(), sdk.NewInt64Coin("uband", int64(r.PickInt(1, 1000, 1_000_000, 50_000_000)))), acct
	}
}

// tssMsg: a message of the signing life cycle on the current group — nonce (DE) submission by a member, a signature
// request, a member's partial signature for a waiting signing (real share, sometimes corrupted), re-activation.
func (t *twin) tssMsg(adv bool) (sdk.Msg, bandtesting.Account, bool) {
	r, g := t.r, t.grp
	id := r.Range(1, int(g.N))
	member := g.Accounts[id-1]
	switch r.Intn(6) {
	case 0, 1:
		return tsstypes.NewMsgSubmitDEs(g.NewDEs(id, r.Range(1, 4)), member.Address.String()), member, true
	case 2:
		acct := t.accs[r.Intn(len(t.accs))]
		var c tsstypes.Content = tsstypes.NewTextSignatureOrder(append([]byte("msg"), r.Bytes(r.Range(1, 20))...))
		limit := sdk.NewCoins(sdk.NewInt64Coin("uband", int64(r.PickInt(0, 1, 100, 1_000_000))))
		m, err := bandtsstypes.NewMsgRequestSignature(c, limit, acct.Address.String())
		if err != nil {
			return nil, acct, false
		}
		return m, acct, true
	case 3, 4:
		// a partial signature for some waiting signing in which this member is assigned
		ctx := t.a.BaseApp.NewUncachedContext(false, cmtproto.Header{Height: t.height, Time: t.now, ChainID: bandtesting.ChainID})
		n := t.a.TSSKeeper.GetSigningCount(ctx)
		for k := uint64(0); k < n && k < 8; k++ {
			sid := tsslib.SigningID(n - k)
			if sg, err := t.a.TSSKeeper.GetSigning(ctx, sid); err != nil || (sg.Status != tsstypes.SIGNING_STATUS_WAITING && !adv) {
				continue
			}
			sig, err := g.Sign(ctx, t.a.TSSKeeper, sid, tsslib.MemberID(id))
			if err != nil {
				continue
			}
			if adv {
				sig = append(tsslib.Signature{}, sig...)
				sig[len(sig)-1] ^= 1
			}
			return tsstypes.NewMsgSubmitSignature(sid, tsslib.MemberID(id), sig, member.Address.String()), member, true
		}
		return nil, member, false
	default:
		return bandtsstypes.NewMsgActivate(member.Address.String(), g.GroupID), member, true
	}
}

// extreme sets one randomly chosen numeric / duration / decimal-string field of a params struct to a boundary value
func extreme(r *fx.Rng, ptr any) string {
	v := reflect.ValueOf(ptr).Elem()
	var idx []int
	for i := 0; i < v.NumField(); i++ {
		switch v.Field(i).Kind() {
		case reflect.Uint64, reflect.Int64:
			idx = append(idx, i)
		case reflect.String:
			if v.Type().Field(i).Name == "PriceQuorum" {
				idx = append(idx, i)
			}
		}
	}
	// coin-list parameters: lists that sdk.Coins.IsValid rejects (unsorted, duplicate, zero) and a few it accepts
	var coinIdx []int
	for i := 0; i < v.NumField(); i++ {
		if v.Field(i).Type() == reflect.TypeOf(sdk.Coins{}) {
			coinIdx = append(coinIdx, i)
		}
	}
	if len(coinIdx) > 0 && r.Chance(1, 3) {
		i := coinIdx[r.Intn(len(coinIdx))]
		c := func(d string, a int64) sdk.Coin { return sdk.Coin{Denom: d, Amount: sdkmath.NewInt(a)} }
		val := [][]sdk.Coin{
			{c("uband", 10), c("aaa", 5)},  // unsorted
			{c("uband", 1), c("uband", 2)}, // duplicate denom
			{c("uband", 0)},                // zero amount
			{c("aaa", 3), c("uband", 7)},   // valid, two denoms
			{c("uband", 1)}, {}, {c("uband", 1_000_000_000_000)},
		}[r.Intn(7)]
		v.Field(i).Set(reflect.ValueOf(sdk.Coins(val)))
		return fmt.Sprintf("%s=%v", v.Type().Field(i).Name, sdk.Coins(val))
	}
	if len(idx) == 0 {
		return ""
	}
	i := idx[r.Intn(len(idx))]
	f := v.Field(i)
	name := v.Type().Field(i).Name
	switch f.Kind() {
	case reflect.Uint64:
		f.SetUint(r.PickU64(0, 1, 2, 50, 100, 101, 10_000, math.MaxInt64, math.MaxUint64))
		if name == "SamplingTryCount" && f.Uint() > 10_000 {
			// a huge accepted value makes a single MsgRequestData loop (practically) forever and would stall every later
			// block of the case; that behaviour is exercised separately, in its own process, by the sampling probe
			f.SetUint(10_000)
		}
	case reflect.Int64: // includes time.Duration
		f.SetInt(r.PickI64(0, 1, 2, 60, 10_000, 1_000_000_000, math.MaxInt64, -1))
	case reflect.String:
		f.SetString(r.PickStr("0", "0.000000000000000001", "0.30", "1", "0.999999999999999999"))
	}
	return fmt.Sprintf("%s=%v", name, f.Interface())
}

// params moved to accepted extremes: the same SetParams on both replicas (what a passed governance proposal would do);
// a value that Params.Validate rejects is not applied.
func (t *twin) tweakParams(tr *fx.Trace) {
	r := t.r
	hdr := cmtproto.Header{Height: t.height, Time: t.now, ChainID: bandtesting.ChainID}
	ctxA := t.a.BaseApp.NewUncachedContext(false, hdr)
	apply := func(mod, desc string, valid error, set func(app *fx.App, ctx sdk.Context) error) {
		if desc == "" {
			return
		}
		if valid != nil {
			tr.Tag("params-rejected:" + mod)
			return
		}
		for _, app := range []*fx.App{t.a, t.b} {
			fx.Must(set(app, app.BaseApp.NewUncachedContext(false, hdr)))
		}
		// the write goes to the working (uncommitted) multistore of each replica and is committed with the next block
		tr.Tag("params:" + mod)
		tr.Op(fx.M{"op": "params", "module": mod, "set": desc})
	}
	switch r.Intn(5) {
	case 0:
		p := t.a.OracleKeeper.GetParams(ctxA)
		d := extreme(r, &p)
		apply("oracle", d, p.Validate(), func(app *fx.App, ctx sdk.Context) error { return app.OracleKeeper.SetParams(ctx, p) })
	case 1:
		p := t.a.FeedsKeeper.GetParams(ctxA)
		d := extreme(r, &p)
		apply("feeds", d, p.Validate(), func(app *fx.App, ctx sdk.Context) error { return app.FeedsKeeper.SetParams(ctx, p) })
	case 2:
		p := t.a.BandtssKeeper.GetParams(ctxA)
		d := extreme(r, &p)
		apply("bandtss", d, p.Validate(), func(app *fx.App, ctx sdk.Context) error { return app.BandtssKeeper.SetParams(ctx, p) })
	case 3:
		p := t.a.TSSKeeper.GetParams(ctxA)
		d := extreme(r, &p)
		apply("tss", d, p.Validate(), func(app *fx.App, ctx sdk.Context) error { return app.TSSKeeper.SetParams(ctx, p) })
	default:
		p := t.a.TunnelKeeper.GetParams(ctxA)
		d := extreme(r, &p)
		apply("tunnel", d, p.Validate(), func(app *fx.App, ctx sdk.Context) error { return app.TunnelKeeper.SetParams(ctx, p) })
	}
}

// shortPeriods sets the period parameters to small accepted values so that expiry, feed-list refresh and
// interval-driven work all occur within the blocks of one case.
func (t *twin) shortPeriods(tr *fx.Trace) {
	hdr := cmtproto.Header{Height: t.height, Time: t.now, ChainID: bandtesting.ChainID}
	iv := int64(t.r.Range(1, 4))
	exp := uint64(t.r.Range(1, 6))
	per := uint64(t.r.Range(1, 5))
	for _, app := range []*fx.App{t.a, t.b} {
		ctx := app.BaseApp.NewUncachedContext(false, hdr)
		fp := app.FeedsKeeper.GetParams(ctx)
		fp.CurrentFeedsUpdateInterval = iv
		fx.Must(fp.Validate())
		fx.Must(app.FeedsKeeper.SetParams(ctx, fp))
		op := app.OracleKeeper.GetParams(ctx)
		op.ExpirationBlockCount = exp
		fx.Must(op.Validate())
		fx.Must(app.OracleKeeper.SetParams(ctx, op))
		tp := app.TSSKeeper.GetParams(ctx)
		tp.CreationPeriod, tp.SigningPeriod = per, per
		fx.Must(tp.Validate())
		fx.Must(app.TSSKeeper.SetParams(ctx, tp))
	}
	tr.Op(fx.M{"op": "params", "module": "periods", "set": fmt.Sprintf("feedsInterval=%d oracleExpiration=%d tssPeriods=%d", iv, exp, per)})
}

func (t *twin) block(tr *fx.Trace) bool {
	r := t.r
	t.height++
	t.now = t.now.Add(time.Duration(r.PickInt(1, 3, 6, 30)) * time.Second)
	var txs [][]byte
	ntx := r.PickInt(0, 1, 2, 4, 8)
	used := map[string]bool{}
	for i := 0; i < ntx; i++ {
		var msgs []sdk.Msg
		var signer bandtesting.Account
		for k := 0; k < r.PickInt(1, 1, 1, 2, 3); k++ {
			m, sg := t.randMsg()
			if m == nil {
				continue
			}
			tr.Tag("msg:" + sdk.MsgTypeURL(m))
			if len(msgs) > 0 && !sg.Address.Equals(signer.Address) && !r.Chance(1, 10) {
				continue // (one in ten keeps a message of another signer: "wrong number of signers")
			}
			if len(msgs) == 0 {
				signer = sg
			}
			msgs = append(msgs, m)
		}
		if len(msgs) == 0 || used[signer.Address.String()] {
			continue
		}
		used[signer.Address.String()] = true
		bz := t.sign(signer, uint64(r.PickInt(60_000, 1_000_000, 1_000_000, 2_000_000)), msgs...)
		if bz == nil {
			continue
		}
		txs = append(txs, bz)
	}
	if r.Chance(1, 10) {
		txs = append(txs, r.Bytes(r.Range(1, 80))) // undecodable bytes
	}
	var votes []abci.VoteInfo
	for i, v := range bandtesting.Validators {
		if r.Chance(5, 6) || (t.infractions && i == 0) {
			votes = append(votes, abci.VoteInfo{Validator: abci.Validator{Address: v.PubKey.Address(), Power: t.powers[len(votes)%len(t.powers)]}, BlockIdFlag: cmtproto.BlockIDFlagCommit})
		} else if t.infractions {
			// reported as absent: the slashing module counts the miss (validator 0 always signs, so the set never empties)
			votes = append(votes, abci.VoteInfo{Validator: abci.Validator{Address: v.PubKey.Address(), Power: t.powers[len(votes)%len(t.powers)]}, BlockIdFlag: cmtproto.BlockIDFlagAbsent})
		}
	}
	var evidence []abci.Misbehavior
	if t.infractions && t.height > 3 && r.Chance(1, 10) {
		// evidence of a double sign by validator 1 or 2 at a recent height
		v := bandtesting.Validators[r.Range(1, len(bandtesting.Validators)-1)]
		back := int64(r.Range(1, 3))
		evidence = append(evidence, abci.Misbehavior{Type: abci.MisbehaviorType_DUPLICATE_VOTE, Validator: abci.Validator{Address: v.PubKey.Address(), Power: r.PickI64(1, 30, 100, 1_000_000)},
			Height: t.height - back, Time: t.now.Add(-time.Duration(back) * time.Second), TotalVotingPower: 200})
		tr.Tag("evidence")
	}
	req := &abci.RequestFinalizeBlock{Height: t.height, Time: t.now, Txs: txs, Hash: r.Bytes(32), Misbehavior: evidence,
		ProposerAddress: bandtesting.Validators[int(t.height)%len(bandtesting.Validators)].PubKey.Address(), DecidedLastCommit: abci.CommitInfo{Votes: votes}}
	type outT struct {
		err  string
		res  *abci.ResponseFinalizeBlock
		hash []byte
	}
	run := func(app *fx.App) outT {
		done := make(chan outT, 1)
		go func() {
			var o outT
			o.err = fx.Try(func() error {
				res, err := app.FinalizeBlock(req)
				o.res = res
				return err
			})
			if o.err == "" {
				_, err := app.Commit()
				if err != nil {
					o.err = "commit: " + err.Error()
				}
				o.hash = app.LastCommitID().Hash
			}
			done <- o
		}()
		select {
		case o := <-done:
			return o
		case <-time.After(blockTimeout):
			// the block never finished: record it, flush the trace and stop (the stuck goroutine cannot be cancelled)
			tr.Op(fx.M{"op": "block", "height": t.height, "ntx": len(txs),
				"out": fx.M{"errA": "hang/FinalizeBlock did not return within " + blockTimeout.String(), "errB": "", "hashA": "", "hashB": "", "txA": nil, "txB": nil}})
			tr.Close()
			tr.WriteStats(statsPath, fx.M{"stoppedOnHang": true})
			os.Exit(0)
			return outT{}
		}
	}
	oa, ob := run(t.a), run(t.b)
	sum := func(o outT, tag bool) []any {
		var l []any
		if o.res == nil {
			return l
		}
		for _, x := range o.res.TxResults {
			d := sha256.Sum256(x.Data)
			l = append(l, []any{x.Code, x.Codespace, x.GasUsed, hx(d[:6])})
			if tag {
				tr.Tag(fmt.Sprintf("tx:%s/%d", x.Codespace, x.Code))
			}
			if debugLogs && x.Code != 0 {
				fmt.Fprintln(os.Stderr, x.Codespace, x.Code, x.Log)
			}
		}
		return l
	}
	tr.Op(fx.M{"op": "block", "height": t.height, "ntx": len(txs),
		"out": fx.M{"errA": oa.err, "errB": ob.err, "hashA": hx(oa.hash), "hashB": hx(ob.hash), "txA": sum(oa, true), "txB": sum(ob, false)}})
	return oa.err == "" && ob.err == ""
}

func main() {
	a := fx.ParseArgs()
	statsPath = a.Stats
	if a.Mode == "probe-sampling" || a.Mode == "probe-sampling-control" {
		probeSampling(a.Seed, a.Mode == "probe-sampling-control")
		return
	}
	if a.Mode == "probe-edit" || a.Mode == "probe-edit-control" {
		probeEdit(a.Seed, a.Mode == "probe-edit-control")
		return
	}
	if a.Mode == "probe-slash" || a.Mode == "probe-slash-control" {
		probeSlash(a.Seed, a.Mode == "probe-slash-control")
		return
	}
	tr := fx.NewTrace(a.Out)
	if a.Mode == "probes" {
		runProbes(tr, a.Seed)
		tr.Close()
		tr.WriteStats(a.Stats, nil)
		return
	}
	n := a.Cases
	if n == 0 {
		n = 3
	}
	r := fx.NewRng(a.Seed)
	for c := 0; c < n; c++ {
		A, B := fx.NewApp(), fx.NewApp()
		t := &twin{a: A, b: B, r: r.Fork(), height: A.LastBlockHeight(), now: time.Unix(1_700_000_000, 0).UTC(), seqs: map[string]uint64{}, lastDel: map[string]int{},
			accs: []bandtesting.Account{bandtesting.Alice, bandtesting.Bob, bandtesting.Carol, bandtesting.Owner, bandtesting.Validators[0], bandtesting.Validators[1], bandtesting.Validators[2]}}
		t.pickFee = t.r.PickInt(0, 1, 10, 1000)
		t.r0 = t.r.PickInt(0, 20_000, 5_000_000, 1_000_000_000)
		t.powers = [][]int64{{100, 1, 99}, {100, 1, 100}, {1, 1, 4}, {7, 7, 7}, {int64(t.r.Range(1, 1000)), int64(t.r.Range(1, 1000)), int64(t.r.Range(1, 1000))}}[t.r.Intn(5)]
		tr.Reset(fx.M{"powers": t.powers, "genesisHashA": hx(A.LastCommitID().Hash), "genesisHashB": hx(B.LastCommitID().Hash)})
		// the accounts are funded (same on both replicas) so that deposits, fee limits and delegations can succeed
		for _, app := range []*fx.App{A, B} {
			fctx := app.BaseApp.NewUncachedContext(false, cmtproto.Header{Height: t.height, Time: t.now, ChainID: bandtesting.ChainID})
			for _, ac := range t.accs {
				app.Fund(fctx, ac.Address, "uband", sdkmath.NewInt(20_000_000_000))
			}
		}
		// in half of the cases the chain has a current bandtss signing group (one key generation fed to both replicas),
		// funded member accounts, and a fee per signer
		if t.r.Chance(1, 2) {
			hdr := cmtproto.Header{Height: t.height, Time: t.now, ChainID: bandtesting.ChainID}
			ctxA, ctxB := A.BaseApp.NewUncachedContext(false, hdr), B.BaseApp.NewUncachedContext(false, hdr)
			members := tssfx.NewAccounts(int64(a.Seed)*131+int64(c), t.r.Range(2, 3))
			g, err := tssfx.NewGroupTwin(A, ctxA, B, ctxB, members, uint64(t.r.Range(1, 2)), bandtsstypes.ModuleName)
			fx.Must(err)
			for _, x := range []struct {
				app *fx.App
				ctx sdk.Context
			}{{A, ctxA}, {B, ctxB}} {
				g.MakeCurrent(x.app, x.ctx)
				for _, m := range members {
					x.app.Fund(x.ctx, m.Address, "uband", sdkmath.NewInt(20_000_000_000))
				}
				bp := x.app.BandtssKeeper.GetParams(x.ctx)
				bp.FeePerSigner = sdk.NewCoins(sdk.NewInt64Coin("uband", int64(t.pickFee)))
				fx.Must(x.app.BandtssKeeper.SetParams(x.ctx, bp))
			}
			t.grp = g
			tr.Tag("with-signing-group")
			// … and an ACTIVE TSS-route tunnel, so that every end-block prices a packet through bandtss
			for _, x := range []struct {
				app *fx.App
				ctx sdk.Context
			}{{A, ctxA}, {B, ctxB}} {
				tp := x.app.TunnelKeeper.GetParams(x.ctx)
				ms := tunnelkeeper.NewMsgServerImpl(x.app.TunnelKeeper)
				sds := []tunneltypes.SignalDeviation{tunneltypes.NewSignalDeviation("CS:BTC-USD", tp.MinDeviationBPS, tp.MinDeviationBPS), tunneltypes.NewSignalDeviation("CS:ETH-USD", tp.MinDeviationBPS, tp.MaxDeviationBPS)}
				m, err := tunneltypes.NewMsgCreateTSSTunnel(sds, tp.MinInterval, "chain-1", "0xabc", feedstypes.ENCODER_FIXED_POINT_ABI, tp.MinDeposit, bandtesting.Alice.Address.String())
				fx.Must(err)
				res, err := ms.CreateTunnel(x.ctx, m)
				fx.Must(err)
				_, err = ms.Activate(x.ctx, tunneltypes.NewMsgActivate(res.TunnelID, bandtesting.Alice.Address.String()))
				fx.Must(err)
				tn, err := x.app.TunnelKeeper.GetTunnel(x.ctx, res.TunnelID)
				fx.Must(err)
				x.app.Fund(x.ctx, sdk.MustAccAddressFromBech32(tn.FeePayer), "uband", sdkmath.NewInt(int64(t.r0)))
			}
		}
		if t.r.Chance(3, 4) {
			// the validators are oracle-active from the start (same on both replicas): data requests find validators to ask
			for _, app := range []*fx.App{A, B} {
				actx := app.BaseApp.NewUncachedContext(false, cmtproto.Header{Height: t.height, Time: t.now, ChainID: bandtesting.ChainID})
				for _, v := range bandtesting.Validators {
					_ = app.OracleKeeper.Activate(actx, v.ValAddress)
				}
			}
		}
		tr.Op(fx.M{"op": "genesis", "out": fx.M{"hashA": hx(A.LastCommitID().Hash), "hashB": hx(B.LastCommitID().Hash)}})
		// sequences as the chain has them
		ctx := A.BaseApp.NewUncachedContext(false, cmtproto.Header{})
		for _, ac := range t.accs {
			if acc := A.AccountKeeper.GetAccount(ctx, ac.Address); acc != nil {
				t.seqs[ac.Address.String()] = acc.GetSequence()
			}
		}
		if t.r.Chance(2, 3) {
			t.shortPeriods(tr) // periodic begin/end-block work happens within the case
		}
		if t.r.Chance(1, 3) {
			// validators 1 and 2 miss blocks and double-sign within the case: a short downtime window on both replicas
			t.infractions = true
			win, jail := int64(t.r.Range(4, 10)), time.Duration(t.r.PickInt(1, 5, 30))*time.Second
			dt, ds := sdkmath.LegacyNewDecWithPrec(int64(t.r.PickInt(1, 10, 50)), 2), sdkmath.LegacyNewDecWithPrec(int64(t.r.PickInt(5, 50, 100)), 2)
			for _, app := range []*fx.App{A, B} {
				sctx := app.BaseApp.NewUncachedContext(false, cmtproto.Header{Height: t.height, Time: t.now, ChainID: bandtesting.ChainID})
				sp, err := app.SlashingKeeper.GetParams(sctx)
				fx.Must(err)
				sp.SignedBlocksWindow, sp.MinSignedPerWindow, sp.DowntimeJailDuration, sp.SlashFractionDowntime, sp.SlashFractionDoubleSign = win, sdkmath.LegacyNewDecWithPrec(5, 1), jail, dt, ds
				fx.Must(app.SlashingKeeper.SetParams(sctx, sp))
			}
			tr.Tag("with-infractions")
		}
		blocks := 60
		if a.Tier == "thorough" {
			blocks = 200
		}
		for i := 0; i < blocks; i++ {
			if t.r.Chance(1, 4) {
				t.tweakParams(tr)
			}
			if !t.block(tr) {
				break
			}
		}
		if debugLogs {
			dctx := A.BaseApp.NewUncachedContext(false, cmtproto.Header{})
			n, res := A.OracleKeeper.GetRequestCount(dctx), 0
			for id := uint64(1); id <= n; id++ {
				if A.OracleKeeper.HasResult(dctx, oracletypes.RequestID(id)) {
					res++
				}
			}
			os1, _ := A.OracleKeeper.GetOracleScript(dctx, 1)
			fmt.Fprintf(os.Stderr, "CASE requests=%d results=%d script1=%q/%q\n", n, res, os1.Name, os1.Filename)
		}
		A.Close()
		B.Close()
	}
	tr.Close()
	tr.WriteStats(a.Stats, nil)
	_ = sdkmath.ZeroInt
}

// probeSampling (child process): oracle SamplingTryCount at the largest value Params.Validate accepts from the
// candidates, then one ordinary MsgRequestData.  Prints PROBE lines; the parent enforces the time limit.
func probeSampling(seed uint64, control bool) {
	A := fx.NewApp()
	defer A.Close()
	t := &twin{a: A, b: A, exactSeq: true, r: fx.NewRng(seed), height: A.LastBlockHeight(), now: time.Unix(1_700_000_000, 0).UTC(), seqs: map[string]uint64{},
		accs: []bandtesting.Account{bandtesting.Alice}, powers: []int64{100, 1, 99}}
	blockOf := func(txs ...[]byte) string {
		t.height++
		t.now = t.now.Add(3 * time.Second)
		var votes []abci.VoteInfo
		for i, v := range bandtesting.Validators {
			votes = append(votes, abci.VoteInfo{Validator: abci.Validator{Address: v.PubKey.Address(), Power: t.powers[i%3]}, BlockIdFlag: cmtproto.BlockIDFlagCommit})
		}
		req := &abci.RequestFinalizeBlock{Height: t.height, Time: t.now, Txs: txs, Hash: make([]byte, 32),
			ProposerAddress: bandtesting.Validators[0].PubKey.Address(), DecidedLastCommit: abci.CommitInfo{Votes: votes}}
		e := fx.Try(func() error {
			res, err := A.FinalizeBlock(req)
			if err == nil {
				for _, x := range res.TxResults {
					fmt.Printf("PROBE tx code=%d codespace=%s\n", x.Code, x.Codespace)
				}
				_, err = A.Commit()
			}
			return err
		})
		return e
	}
	var acts [][]byte
	for _, v := range bandtesting.Validators {
		acts = append(acts, t.sign(v, 1_000_000, oracletypes.NewMsgActivate(v.ValAddress)))
	}
	fmt.Println("PROBE activate err=" + blockOf(acts...))
	hdr := cmtproto.Header{Height: t.height, Time: t.now, ChainID: bandtesting.ChainID}
	ctx := A.BaseApp.NewUncachedContext(false, hdr)
	p := A.OracleKeeper.GetParams(ctx)
	accepted := uint64(0)
	cands := []uint64{math.MaxInt64, 1 << 40}
	if control {
		cands = []uint64{p.SamplingTryCount} // the control run keeps the default and must finish
	}
	for _, v := range cands {
		p.SamplingTryCount = v
		if p.Validate() == nil {
			accepted = v
			break
		}
	}
	fmt.Printf("PROBE accepted=%d\n", accepted)
	if accepted == 0 {
		fmt.Println("PROBE done")
		return
	}
	fx.Must(A.OracleKeeper.SetParams(ctx, p))
	os.Stdout.Sync()
	req := oracletypes.NewMsgRequestData(1, []byte("beeb"), 1, 1, "cid", sdk.NewCoins(sdk.NewInt64Coin("uband", 100_000_000)), 40000, 300000, bandtesting.Validators[0].Address, oracletypes.ENCODER_UNSPECIFIED)
	fmt.Println("PROBE request err=" + blockOf(t.sign(bandtesting.Validators[0], 2_000_000, req)))
	fmt.Println("PROBE done")
}

// probeSlash (child process): a delegator redelegates from validator A to validator B, votes in feeds with its whole
// bonded power (which locks that power in the restake vault of feeds), and then evidence of a double sign by A at a
// height before the redelegation arrives.  staking.Slash → SlashRedelegation unbonds the slashed part of the moved
// delegation from B through Keeper.Unbond, which runs the staking hooks.  The control run is the same history
// without the vote.  Prints PROBE lines.
func probeSlash(seed uint64, control bool) {
	A := fx.NewApp()
	defer A.Close()
	t := &twin{a: A, b: A, exactSeq: true, r: fx.NewRng(seed), height: A.LastBlockHeight(), now: time.Unix(1_700_000_000, 0).UTC(), seqs: map[string]uint64{},
		accs: []bandtesting.Account{bandtesting.Alice}, powers: []int64{100, 1, 99}}
	blockOf := func(ev []abci.Misbehavior, txs ...[]byte) string {
		t.height++
		t.now = t.now.Add(3 * time.Second)
		var votes []abci.VoteInfo
		for i, v := range bandtesting.Validators {
			votes = append(votes, abci.VoteInfo{Validator: abci.Validator{Address: v.PubKey.Address(), Power: t.powers[i%3]}, BlockIdFlag: cmtproto.BlockIDFlagCommit})
		}
		req := &abci.RequestFinalizeBlock{Height: t.height, Time: t.now, Txs: txs, Hash: make([]byte, 32), Misbehavior: ev,
			ProposerAddress: bandtesting.Validators[0].PubKey.Address(), DecidedLastCommit: abci.CommitInfo{Votes: votes}}
		return fx.Try(func() error {
			res, err := A.FinalizeBlock(req)
			if err == nil {
				for _, x := range res.TxResults {
					fmt.Printf("PROBE tx code=%d codespace=%s log=%q\n", x.Code, x.Codespace, x.Log)
				}
				_, err = A.Commit()
			}
			return err
		})
	}
	del := bandtesting.Alice
	vA, vB := bandtesting.Validators[1], bandtesting.Validators[2]
	amt := sdk.NewInt64Coin("uband", 500_000)
	fmt.Println("PROBE delegate err=" + blockOf(nil, t.sign(del, 1_000_000, stakingtypes.NewMsgDelegate(del.Address.String(), vA.ValAddress.String(), amt))))
	infractionHeight, infractionTime := t.height, t.now
	fmt.Println("PROBE empty err=" + blockOf(nil))
	fmt.Println("PROBE redelegate err=" + blockOf(nil, t.sign(del, 1_000_000, stakingtypes.NewMsgBeginRedelegate(del.Address.String(), vA.ValAddress.String(), vB.ValAddress.String(), amt))))
	if !control {
		fmt.Println("PROBE vote err=" + blockOf(nil, t.sign(del, 1_000_000, feedstypes.NewMsgVote(del.Address.String(), []feedstypes.Signal{feedstypes.NewSignal("CS:BTC-USD", amt.Amount.Int64())}))))
	} else {
		fmt.Println("PROBE vote err=" + blockOf(nil))
	}
	ctx := A.BaseApp.NewUncachedContext(false, cmtproto.Header{Height: t.height, Time: t.now, ChainID: bandtesting.ChainID})
	locked := "0"
	if l, err := A.RestakeKeeper.GetLockedPower(ctx, del.Address, feedstypes.ModuleName); err == nil {
		locked = l.String()
	}
	bonded, _ := A.StakingKeeper.GetDelegatorBonded(ctx, del.Address)
	fmt.Printf("PROBE locked=%s bonded=%s\n", locked, bonded.String())
	valA, _ := A.StakingKeeper.GetValidator(ctx, vA.ValAddress)
	ev := []abci.Misbehavior{{Type: abci.MisbehaviorType_DUPLICATE_VOTE, Validator: abci.Validator{Address: vA.PubKey.Address(), Power: valA.GetConsensusPower(sdk.DefaultPowerReduction)},
		Height: infractionHeight, Time: infractionTime, TotalVotingPower: 200}}
	os.Stdout.Sync()
	fmt.Println("PROBE evidence err=" + blockOf(ev))
	ctx = A.BaseApp.NewUncachedContext(false, cmtproto.Header{Height: t.height, Time: t.now, ChainID: bandtesting.ChainID})
	valA, _ = A.StakingKeeper.GetValidator(ctx, vA.ValAddress)
	bonded, _ = A.StakingKeeper.GetDelegatorBonded(ctx, del.Address)
	fmt.Printf("PROBE after jailedA=%v bonded=%s\n", valA.IsJailed(), bonded.String())
	fmt.Println("PROBE done")
}

// probeEdit (child process): an ordinary data request on oracle script 1 is accepted; while it waits for its reports the owner
// renames the script and data source 1 keeping their code ("[do-not-modify]"); then every asked validator reports and the
// end-blocker resolves the request.
// The control run is the same history without the edits.  Prints PROBE lines.
func probeEdit(seed uint64, control bool) {
	A := fx.NewApp()
	defer A.Close()
	t := &twin{a: A, b: A, exactSeq: true, r: fx.NewRng(seed), height: A.LastBlockHeight(), now: time.Unix(1_700_000_000, 0).UTC(), seqs: map[string]uint64{}, lastDel: map[string]int{},
		accs: []bandtesting.Account{bandtesting.Alice}, powers: []int64{100, 1, 99}}
	blockOf := func(txs ...[]byte) string {
		t.height++
		t.now = t.now.Add(3 * time.Second)
		var votes []abci.VoteInfo
		for i, v := range bandtesting.Validators {
			votes = append(votes, abci.VoteInfo{Validator: abci.Validator{Address: v.PubKey.Address(), Power: t.powers[i%3]}, BlockIdFlag: cmtproto.BlockIDFlagCommit})
		}
		req := &abci.RequestFinalizeBlock{Height: t.height, Time: t.now, Txs: txs, Hash: make([]byte, 32),
			ProposerAddress: bandtesting.Validators[0].PubKey.Address(), DecidedLastCommit: abci.CommitInfo{Votes: votes}}
		return fx.Try(func() error {
			res, err := A.FinalizeBlock(req)
			if err == nil {
				for _, x := range res.TxResults {
					fmt.Printf("PROBE tx code=%d codespace=%s log=%q\n", x.Code, x.Codespace, x.Log)
				}
				_, err = A.Commit()
			}
			return err
		})
	}
	var acts [][]byte
	for _, v := range bandtesting.Validators {
		acts = append(acts, t.sign(v, 1_000_000, oracletypes.NewMsgActivate(v.ValAddress)))
	}
	fmt.Println("PROBE activate err=" + blockOf(acts...))
	rq := oracletypes.NewMsgRequestData(1, []byte("beeb"), 2, 2, "cid", sdk.NewCoins(sdk.NewInt64Coin("uband", 100_000_000)), 40000, 300000, bandtesting.Validators[0].Address, oracletypes.ENCODER_UNSPECIFIED)
	fmt.Println("PROBE request err=" + blockOf(t.sign(bandtesting.Validators[0], 2_000_000, rq)))
	if !control {
		own := bandtesting.Owner
		fmt.Println("PROBE edit-script err=" + blockOf(t.sign(own, 1_000_000, oracletypes.NewMsgEditOracleScript(1, "renamed", oracletypes.DoNotModify, oracletypes.DoNotModify,
			oracletypes.DoNotModify, oracletypes.DoNotModifyBytes, own.Address, own.Address))))
		fmt.Println("PROBE edit-source err=" + blockOf(t.sign(own, 1_000_000, oracletypes.NewMsgEditDataSource(1, "renamed", oracletypes.DoNotModify, oracletypes.DoNotModifyBytes,
			sdk.NewCoins(sdk.NewInt64Coin("uband", 1_000_000)), bandtesting.Treasury.Address, own.Address, own.Address))))
	}
	ctx := A.BaseApp.NewUncachedContext(false, cmtproto.Header{Height: t.height, Time: t.now, ChainID: bandtesting.ChainID})
	var reps [][]byte
	if r0, err := A.OracleKeeper.GetRequest(ctx, 1); err == nil {
		for _, vs := range r0.RequestedValidators {
			for _, v := range bandtesting.Validators {
				if v.ValAddress.String() == vs {
					var rr []oracletypes.RawReport
					for _, raw := range r0.RawRequests {
						rr = append(rr, oracletypes.NewRawReport(raw.ExternalID, 0, []byte("answer")))
					}
					reps = append(reps, t.sign(v, 1_000_000, oracletypes.NewMsgReportData(1, rr, v.ValAddress)))
				}
			}
		}
	}
	os.Stdout.Sync()
	fmt.Println("PROBE evidence err=" + blockOf(reps...)) // (the block whose end-blocker resolves the request)
	ctx = A.BaseApp.NewUncachedContext(false, cmtproto.Header{Height: t.height, Time: t.now, ChainID: bandtesting.ChainID})
	fmt.Printf("PROBE after jailedA=%v resolved\n", A.OracleKeeper.HasResult(ctx, 1))
	fmt.Println("PROBE done")
}

// runProbes runs directed scenarios that cannot share a process with the random cases.
func runProbes(tr *fx.Trace, seed uint64) {
	one := func(mode string, limit time.Duration) (accepted string, finished bool, log []string) {
		cmd := exec.Command(os.Args[0], "--mode", mode, "--seed", fmt.Sprint(seed), "--out", os.DevNull, "--stats", os.DevNull)
		var buf bytes.Buffer
		cmd.Stdout = &buf
		cmd.Stderr = io.Discard
		fx.Must(cmd.Start())
		done := make(chan error, 1)
		go func() { done <- cmd.Wait() }()
		finished = true
		select {
		case <-done:
		case <-time.After(limit):
			finished = false
			cmd.Process.Kill()
			<-done
		}
		out := buf.String()
		for _, ln := range strings.Split(out, "\n") {
			if strings.HasPrefix(ln, "PROBE accepted=") {
				accepted = strings.TrimPrefix(ln, "PROBE accepted=")
			}
		}
		return accepted, finished && strings.Contains(out, "PROBE done"), strings.Split(strings.TrimSpace(out), "\n")
	}
	tr.Reset(fx.M{"probe": true})
	// only the run that is expected to hang gets the short limit; everything else may be slow on a loaded machine
	cv, cf, cl := one("probe-sampling-control", 5*time.Minute)
	tr.Op(fx.M{"op": "probe", "name": "oracle.SamplingTryCount", "control": true, "value": cv,
		"out": fx.M{"acceptedByValidate": true, "finished": cf, "log": cl}})
	v, f, l := one("probe-sampling", 25*time.Second)
	tr.Op(fx.M{"op": "probe", "name": "oracle.SamplingTryCount", "control": false, "value": v,
		"out": fx.M{"acceptedByValidate": v != "" && v != "0", "finished": f, "log": l}})
	// directed histories: (1) slash of a redelegation whose delegator has locked its whole power, (2) a data request on an
	// oracle script and a data source their owner has renamed with "[do-not-modify]" code
	for _, sc := range [][2]string{{"probe-slash", "slash-of-locked-redelegation"}, {"probe-edit", "request-after-owner-renames-script"}} {
		for _, control := range []bool{true, false} {
			mode := sc[0]
			if control {
				mode += "-control"
			}
			_, fin, lg := one(mode, 5*time.Minute)
			errs, slashed := "", false
			for _, ln := range lg {
				if strings.HasPrefix(ln, "PROBE evidence err=") {
					errs = strings.TrimPrefix(ln, "PROBE evidence err=")
				}
				if strings.HasPrefix(ln, "PROBE after jailedA=true") {
					slashed = true
				}
			}
			tr.Op(fx.M{"op": "scenario", "name": sc[1], "control": control,
				"out": fx.M{"finished": fin, "err": errs, "slashed": slashed, "log": lg}})
		}
	}
}
