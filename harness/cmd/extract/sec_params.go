package main

import (
	"go/ast"
	"path/filepath"
	"regexp"

	"verifharness/internal/xt"
)

// Params.lean (C02): the bound that Params.Validate puts on the reward percentages of the oracle and bandtss modules.
// Recognised shapes: an explicit `if p.<Field> > N { return fmt.Errorf(...) }` (bound N), or no comparison of the field
// at all (every uint64 accepted).  Anything else mentioning a comparison of the field is an extraction failure.
func init() {
	register("Params", func(repo, out string) {
		l := xt.NewLean(filepath.Join(out, "Params.lean"), "x/oracle/types/params.go, x/bandtss/types/params.go: the bound Params.Validate puts on the reward percentages")
		l.P("namespace BandVerif.Generated.Params")
		for _, m := range []struct{ dir, field, lean string }{
			{"x/oracle/types", "OracleRewardPercentage", "oracleRewardPctAccepted"},
			{"x/bandtss/types", "RewardPercentage", "bandtssRewardPctAccepted"},
		} {
			p := xt.Load(filepath.Join(repo, m.dir))
			body := p.Norm(p.Func("Params", "Validate").Body)
			re := regexp.MustCompile(`ifp\.` + m.field + `>([0-9]+)\{returnfmt\.Errorf\(`)
			anyCmp := regexp.MustCompile(`p\.` + m.field + `(>|<|>=|<=|==|!=)[^)]`)
			if mm := re.FindStringSubmatch(body); mm != nil {
				l.P("/-- %s Params.Validate: `if p.%s > %s { return fmt.Errorf(...) }` -/", m.dir, m.field, mm[1])
				l.P("def %s (p : Nat) : Bool := decide (p ≤ %s)", m.lean, mm[1])
			} else if !anyCmp.MatchString(body) {
				l.P("/-- %s Params.Validate does not bound %s: every uint64 is accepted -/", m.dir, m.field)
				l.P("def %s (p : Nat) : Bool := true", m.lean)
			} else {
				xt.Fail("Params.Validate of %s: comparison of %s not recognised", m.dir, m.field)
			}
		}
		// the whole of every module's parameter validation, as normalised source text (any weakening or tightening of an
		// accepted-parameter set changes these and is flagged against Model/ParamsSrc.lean)
		for _, m := range []struct{ dir, lean string }{
			{"x/oracle/types", "oracle"}, {"x/feeds/types", "feeds"}, {"x/bandtss/types", "bandtss"}, {"x/tss/types", "tss"},
			{"x/tunnel/types", "tunnel"}, {"x/restake/types", "restake"}, {"x/globalfee/types", "globalfee"},
		} {
			p := xt.Load(filepath.Join(repo, m.dir))
			src := "Validate" + p.Norm(p.Func("Params", "Validate").Body)
			for _, h := range []string{"validateUint64", "validateInt64", "validateString", "validateBool", "validateTimeDuration", "validateMinimumGasPrices"} {
				for _, f := range p.Files {
					for _, d := range f.Decls {
						if fd, ok := d.(*ast.FuncDecl); ok && fd.Recv == nil && fd.Name.Name == h {
							src += " " + h + p.Norm(fd.Body)
						}
					}
				}
			}
			l.P("def validateSrc_%s : String := %s", m.lean, xt.LeanStr(src))
		}
		l.P("end BandVerif.Generated.Params")
		l.Write()
	})
}
