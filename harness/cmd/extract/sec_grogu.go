package main

import (
	"path/filepath"

	"verifharness/internal/xt"
)

// Grogu.lean (C20): constants and normalised source of the signaller's decision logic, the in-flight bookkeeping of
// signaller and submitter, and the chain's SubmitSignalPrices.
func init() {
	register("Grogu", func(repo, out string) {
		sg := xt.Load(filepath.Join(repo, "grogu/signaller"))
		sb := xt.Load(filepath.Join(repo, "grogu/submitter"))
		fk := xt.Load(filepath.Join(repo, "x/feeds/keeper"))
		qr := xt.Load(filepath.Join(repo, "grogu/querier"))
		l := xt.NewLean(filepath.Join(out, "Grogu.lean"), "grogu signaller/submitter and feeds SubmitSignalPrices: constants and function sources")
		l.P("namespace BandVerif.Generated.Grogu")
		l.P("def fixedIntervalOffset : Int := %s", sg.Int("FixedIntervalOffset").String())
		l.P("def timeBuffer : Int := %s", sg.Int("TimeBuffer").String())
		src := func(name string, pk *xt.Pkg, recv, fn string) {
			l.P("def src_%s : String := %s", name, xt.LeanStr(pk.Norm(pk.Func(recv, fn).Body)))
		}
		src("execute", sg, "Signaller", "execute")
		src("submitPrices", sg, "Signaller", "submitPrices")
		src("getNonPendingSignalIDs", sg, "Signaller", "getNonPendingSignalIDs")
		src("filterAndPrepareSignalPrices", sg, "Signaller", "filterAndPrepareSignalPrices")
		src("isNonUrgentUnavailablePrices", sg, "Signaller", "isNonUrgentUnavailablePrices")
		src("isPriceValid", sg, "Signaller", "isPriceValid")
		src("shouldUpdatePrice", sg, "Signaller", "shouldUpdatePrice")
		src("isDeviated", sg, "", "isDeviated")
		src("convertPriceData", sg, "", "convertPriceData")
		src("calculateAssignedTime", sg, "", "calculateAssignedTime")
		src("submitterStart", sb, "Submitter", "Start")
		src("submitPrice", sb, "Submitter", "submitPrice")
		src("removePending", sb, "Submitter", "removePending")
		src("SubmitSignalPrices", fk, "msgServer", "SubmitSignalPrices")
		src("getMaxBlockHeightResponse", qr, "", "getMaxBlockHeightResponse")
		l.P("end BandVerif.Generated.Grogu")
		l.Write()
	})
}
