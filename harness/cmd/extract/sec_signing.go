package main

import (
	"fmt"
	"path/filepath"
	"strings"

	"verifharness/internal/xt"
)

// SigningEnc.lean (C11): the 4-byte tags, which content kinds are internal, the user-facing guard, and the
// normalised source of EncodeSigning / originator encoders / content handlers.
func init() {
	register("SigningEnc", func(repo, out string) {
		l := xt.NewLean(filepath.Join(out, "SigningEnc.lean"), "signed-message encoding: tags, IsInternal table, encoder sources")
		l.P("namespace BandVerif.Generated.SigningEnc")
		bytesOf := func(s string) string {
			var parts []string
			for i := 0; i < len(s); i++ {
				parts = append(parts, fmt.Sprint(int(s[i])))
			}
			return "[" + strings.Join(parts, ", ") + "]"
		}
		tssTypes := xt.Load(filepath.Join(repo, "x/tss/types"))
		tssRoot := xt.Load(filepath.Join(repo, "x/tss"))
		bandtssRoot := xt.Load(filepath.Join(repo, "x/bandtss"))
		oracleRoot := xt.Load(filepath.Join(repo, "x/oracle"))
		feedsTypes := xt.Load(filepath.Join(repo, "x/feeds/types"))
		feedsRoot := xt.Load(filepath.Join(repo, "x/feeds"))
		tunnelTypes := xt.Load(filepath.Join(repo, "x/tunnel/types"))
		tunnelRoot := xt.Load(filepath.Join(repo, "x/tunnel"))
		oracleTypes := xt.Load(filepath.Join(repo, "x/oracle/types"))
		bandtssTypes := xt.Load(filepath.Join(repo, "x/bandtss/types"))
		bandtssKeeper := xt.Load(filepath.Join(repo, "x/bandtss/keeper"))
		for _, t := range []struct {
			pk   *xt.Pkg
			name string
			lean string
		}{
			{tssTypes, "DirectOriginatorPrefix", "tagDirectOriginator"}, {tssTypes, "TunnelOriginatorPrefix", "tagTunnelOriginator"},
			{tssRoot, "TextMsgPrefix", "tagText"}, {bandtssRoot, "GroupTransitionMsgPrefix", "tagTransition"},
			{oracleRoot, "EncoderProtoPrefix", "tagProto"}, {oracleRoot, "EncoderFullABIPrefix", "tagFullABI"}, {oracleRoot, "EncoderPartialABIPrefix", "tagPartialABI"},
			{feedsTypes, "EncoderFixedPointABIPrefix", "tagFixedPointABI"}, {feedsTypes, "EncoderTickABIPrefix", "tagTickABI"},
		} {
			l.P("def %s : List Nat := %s", t.lean, bytesOf(t.pk.Str(t.name)))
		}
		internal := func(pk *xt.Pkg, recv string) string {
			b := pk.Norm(pk.Func(recv, "IsInternal").Body)
			switch b {
			case "{returntrue}":
				return "true"
			case "{returnfalse}":
				return "false"
			}
			xt.Fail("%s.IsInternal: unrecognised body %s", recv, b)
			return ""
		}
		l.P("def internalText : Bool := %s", internal(tssTypes, "TextSignatureOrder"))
		l.P("def internalFeeds : Bool := %s", internal(feedsTypes, "FeedsSignatureOrder"))
		l.P("def internalOracle : Bool := %s", internal(oracleTypes, "OracleResultSignatureOrder"))
		l.P("def internalTunnel : Bool := %s", internal(tunnelTypes, "TunnelSignatureOrder"))
		l.P("def internalTransition : Bool := %s", internal(bandtssTypes, "GroupTransitionSignatureOrder"))
		// content routes: OrderRoute() returns RouterKey (= ModuleName); the router prepends Hash(route)[:4]
		route := func(lean string, pk *xt.Pkg, recv string) {
			if b := pk.Norm(pk.Func(recv, "OrderRoute").Body); b != "{returnRouterKey}" {
				xt.Fail("%s.OrderRoute: unrecognised body %s", recv, b)
			}
			l.P("def %s : List Nat := %s", lean, bytesOf(pk.Str("RouterKey")))
		}
		route("routeText", tssTypes, "TextSignatureOrder")
		route("routeFeeds", feedsTypes, "FeedsSignatureOrder")
		route("routeOracle", oracleTypes, "OracleResultSignatureOrder")
		route("routeTunnel", tunnelTypes, "TunnelSignatureOrder")
		route("routeTransition", bandtssTypes, "GroupTransitionSignatureOrder")
		rs := bandtssKeeper.Norm(bandtssKeeper.Func("msgServer", "RequestSignature").Body)
		g := strings.Index(rs, "ifcontent.IsInternal(){returnnil,types.ErrContentNotAllowed")
		c := strings.Index(rs, "k.Keeper.CreateDirectSigningRequest(")
		l.P("/-- MsgRequestSignature rejects internal content before creating the request -/")
		l.P("def userGuardBeforeCreate : Bool := %v", g >= 0 && c > g)
		src := func(name string, pk *xt.Pkg, recv, fn string) {
			l.P("def src_%s : String := %s", name, xt.LeanStr(pk.Norm(pk.Func(recv, fn).Body)))
		}
		src("EncodeSigning", tssTypes, "", "EncodeSigning")
		src("wrapHandler", tssTypes, "", "wrapHandler")
		src("DirectEncode", tssTypes, "DirectOriginator", "Encode")
		src("TunnelEncode", tssTypes, "TunnelOriginator", "Encode")
		src("tssHandler", tssRoot, "", "NewSignatureOrderHandler")
		src("bandtssHandler", bandtssRoot, "", "NewSignatureOrderHandler")
		src("oracleHandler", oracleRoot, "", "NewSignatureOrderHandler")
		src("feedsHandler", feedsRoot, "", "NewSignatureOrderHandler")
		src("tunnelHandler", tunnelRoot, "", "NewSignatureOrderHandler")
		src("feedsEncodeTSS", feedsTypes, "", "EncodeTSS")
		src("tunnelEncodeTSS", tunnelTypes, "", "EncodeTSS")
		src("ToRelayPrices", feedsTypes, "", "ToRelayPrices")
		src("ToRelayTickPrices", feedsTypes, "", "ToRelayTickPrices")
		src("StringToBytes32", feedsTypes, "", "StringToBytes32")
		// ABI type declarations (package-level vars)
		for _, v := range []struct {
			pk   *xt.Pkg
			name string
		}{{feedsTypes, "_priceABI"}, {feedsTypes, "_int64ABI"}, {feedsTypes, "feedsPriceDataArgs"}, {tunnelTypes, "packetABI"}, {tunnelTypes, "packetArgs"},
			{oracleTypes, "fullResult"}, {oracleTypes, "fullArgs"}, {oracleTypes, "partialResult"}, {oracleTypes, "partialArgs"}} {
			l.P("def abi_%s : String := %s", strings.TrimPrefix(v.name, "_"), xt.LeanStr(v.pk.Norm(v.pk.Expr(v.name))))
		}
		l.P("end BandVerif.Generated.SigningEnc")
		l.Write()
	})
}
