package main

import (
	"go/ast"
	"path/filepath"

	"verifharness/internal/xt"
)

// Errors.lean: every `ErrX = errorsmod.Register(ModuleName, N, "...")` of the x/ modules as the
// canonical string "<codespace>/<code>" the harness prints for that error.
func init() {
	register("Errors", func(repo, out string) {
		l := xt.NewLean(filepath.Join(out, "Errors.lean"), "registered error codes of x/*/types/errors.go")
		l.P("namespace BandVerif.Generated.Err")
		for _, mod := range []string{"oracle", "tss", "bandtss", "feeds", "tunnel", "restake", "rollingseed", "globalfee"} {
			p := xt.Load(filepath.Join(repo, "x", mod, "types"))
			modName := mod
			if p.Has("ModuleName") {
				modName = p.Str("ModuleName")
			}
			for _, n := range p.AllNames("Err") {
				ce, ok := p.Expr(n).(*ast.CallExpr)
				if !ok || len(ce.Args) < 2 {
					continue
				}
				se, ok := ce.Fun.(*ast.SelectorExpr)
				if !ok || se.Sel.Name != "Register" {
					continue
				}
				cs := modName
				if id, ok := ce.Args[0].(*ast.Ident); !ok || id.Name != "ModuleName" {
					cs = p.EvalStr(ce.Args[0])
				}
				l.P("def %s_%s : String := \"%s/%s\"", mod, n, cs, p.EvalInt(ce.Args[1]).String())
			}
		}
		l.P("end BandVerif.Generated.Err")
		l.Write()
	})
}
