// extract: regenerates /verif/lean/BandVerif/Generated/*.lean from the current /repo sources.
// It only parses (go/parser); a construct it cannot translate is a hard error (exit 3).
package main

import (
	"flag"
	"fmt"
	"os"
	"path/filepath"
	"sort"

	"verifharness/internal/xt"
)

type section func(repo, out string)

var sections = map[string]section{}

func register(name string, f section) { sections[name] = f }

func main() {
	repo := flag.String("repo", "/repo", "repository root")
	out := flag.String("out", "/verif/lean/BandVerif/Generated", "output directory")
	flag.Parse()
	names := flag.Args()
	if len(names) == 0 {
		for n := range sections {
			names = append(names, n)
		}
	}
	sort.Strings(names)
	for _, n := range names {
		f, ok := sections[n]
		if !ok {
			xt.Fail("unknown section %q", n)
		}
		f(*repo, *out)
		fmt.Println("extracted", n)
	}
	_ = os.Stdout
	_ = filepath.Join
}
