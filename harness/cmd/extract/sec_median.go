package main

import (
	"go/ast"
	"path/filepath"
	"strings"

	"verifharness/internal/xt"
)

// Median.lean: the scaling factor, multipliers and sections of x/feeds/types/median.go, the
// SignalPriceStatus / PriceStatus enum values, and the three comparison operators that decide the
// feed status and the half-weight crossing (so a `>`/`>=` flip is visible to the theorems).
func init() {
	register("Median", func(repo, out string) {
		p := xt.Load(filepath.Join(repo, "x/feeds/types"))
		l := xt.NewLean(filepath.Join(out, "Median.lean"), "x/feeds/types/median.go constants, status enums, comparison operators")
		l.P("namespace BandVerif.Generated.Median")
		intsOf := func(fn string) []string {
			fd := p.Func("", fn)
			var vals []string
			ast.Inspect(fd.Body, func(n ast.Node) bool {
				if ce, ok := n.(*ast.CallExpr); ok {
					if se, ok := ce.Fun.(*ast.SelectorExpr); ok && se.Sel.Name == "NewInt" && len(ce.Args) == 1 {
						vals = append(vals, p.EvalInt(ce.Args[0]).String())
					}
				}
				return true
			})
			if len(vals) == 0 {
				xt.Fail("%s: no sdkmath.NewInt literals", fn)
			}
			return vals
		}
		sc := intsOf("getPowerScalingFactor")
		if len(sc) != 1 {
			xt.Fail("getPowerScalingFactor: expected one literal")
		}
		l.P("def scale : Int := %s", sc[0])
		l.P("def multipliers : List Int := [%s]", strings.Join(intsOf("getMultipliers"), ", "))
		l.P("def sections : List Int := [%s]", strings.Join(intsOf("getSections"), ", "))
		for _, n := range []string{"SIGNAL_PRICE_STATUS_UNSPECIFIED", "SIGNAL_PRICE_STATUS_UNSUPPORTED", "SIGNAL_PRICE_STATUS_UNAVAILABLE", "SIGNAL_PRICE_STATUS_AVAILABLE",
			"PRICE_STATUS_UNKNOWN_SIGNAL_ID", "PRICE_STATUS_NOT_READY", "PRICE_STATUS_AVAILABLE", "PRICE_STATUS_NOT_IN_CURRENT_FEEDS"} {
			l.P("def %s : Nat := %s", strings.ToLower(n), p.Int(n).String())
		}
		// comparison operators, by source text (whitespace-insensitive)
		norm := func(pk *xt.Pkg, fd *ast.FuncDecl) string { return pk.Norm(fd.Body) }
		mw := norm(p, p.Func("", "MedianWeightedPrice"))
		switch {
		case strings.Contains(mw, "cumulativeWeight.MulRaw(2).GTE(totalWeight)"):
			l.P("/-- MedianWeightedPrice: `cumulativeWeight.MulRaw(2).GTE(totalWeight)` -/\ndef halfReached (cum total : Int) : Bool := decide (2 * cum ≥ total)")
		case strings.Contains(mw, "cumulativeWeight.MulRaw(2).GT(totalWeight)"):
			l.P("def halfReached (cum total : Int) : Bool := decide (2 * cum > total)")
		default:
			xt.Fail("MedianWeightedPrice: unrecognised half-weight test")
		}
		mv := norm(p, p.Func("", "MedianValidatorPriceInfos"))
		switch {
		case strings.Contains(mv, "currentPower.Add(leftPower).LTE(sectionLimit)"):
			l.P("/-- section walk: `currentPower.Add(leftPower).LTE(sectionLimit)` -/\ndef fitsSection (cur left limit : Int) : Bool := decide (cur + left ≤ limit)")
		case strings.Contains(mv, "currentPower.Add(leftPower).LT(sectionLimit)"):
			l.P("def fitsSection (cur left limit : Int) : Bool := decide (cur + left < limit)")
		default:
			xt.Fail("MedianValidatorPriceInfos: unrecognised section test")
		}
		k := xt.Load(filepath.Join(repo, "x/feeds/keeper"))
		cp := norm(k, k.Func("Keeper", "CalculatePrice"))
		one := func(name string, opts map[string]string) {
			for src, lean := range opts {
				if strings.Contains(cp, src) {
					l.P("/-- CalculatePrice: `%s` -/\n%s", src, lean)
					return
				}
			}
			xt.Fail("CalculatePrice: unrecognised %s test", name)
		}
		one("unsupported", map[string]string{
			"unsupportedPower.MulRaw(2).GT(totalPower)":  "def unsupportedWins (unsup total : Int) : Bool := decide (2 * unsup > total)",
			"unsupportedPower.MulRaw(2).GTE(totalPower)": "def unsupportedWins (unsup total : Int) : Bool := decide (2 * unsup ≥ total)",
		})
		// the not-ready test, possibly with the zero-total guard
		switch {
		case strings.Contains(cp, "totalPower.IsZero()||totalPower.LT(powerQuorum)||availablePower.MulRaw(2).LT(totalPower)"):
			l.P("/-- CalculatePrice: `totalPower.IsZero() || totalPower.LT(powerQuorum) || availablePower.MulRaw(2).LT(totalPower)` -/\ndef notReady (total avail quorum : Int) : Bool := decide (total = 0 ∨ total < quorum ∨ 2 * avail < total)")
		case strings.Contains(cp, "totalPower.LT(powerQuorum)||availablePower.MulRaw(2).LT(totalPower)"):
			l.P("/-- CalculatePrice: `totalPower.LT(powerQuorum) || availablePower.MulRaw(2).LT(totalPower)` -/\ndef notReady (total avail quorum : Int) : Bool := decide (total < quorum ∨ 2 * avail < total)")
		case strings.Contains(cp, "totalPower.LTE(powerQuorum)||availablePower.MulRaw(2).LT(totalPower)"):
			l.P("def notReady (total avail quorum : Int) : Bool := decide (total ≤ quorum ∨ 2 * avail < total)")
		case strings.Contains(cp, "totalPower.LT(powerQuorum)||availablePower.MulRaw(2).LTE(totalPower)"):
			l.P("def notReady (total avail quorum : Int) : Bool := decide (total < quorum ∨ 2 * avail ≤ total)")
		default:
			xt.Fail("CalculatePrice: unrecognised not-ready test")
		}
		hp := norm(k, k.Func("", "checkHavePrice"))
		switch {
		case strings.Contains(hp, "valPrice.Timestamp>=blockTime.Unix()-feed.Interval"):
			l.P("/-- checkHavePrice: `valPrice.Timestamp >= blockTime.Unix()-feed.Interval` -/\ndef fresh (ts now interval : Int) : Bool := decide (ts ≥ now - interval)")
		case strings.Contains(hp, "valPrice.Timestamp>blockTime.Unix()-feed.Interval"):
			l.P("def fresh (ts now interval : Int) : Bool := decide (ts > now - interval)")
		default:
			xt.Fail("checkHavePrice: unrecognised freshness test")
		}
		l.P("end BandVerif.Generated.Median")
		l.Write()
	})
}
