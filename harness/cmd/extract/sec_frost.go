package main

import (
	"go/ast"
	"go/token"
	"path/filepath"
	"strings"

	"verifharness/internal/xt"
)

// Frost.lean (C03): Lagrange tables and modulus, the context string, and the normalised source of the signing
// functions of pkg/tss and of x/tss SubmitSignature.
func init() {
	register("Frost", func(repo, out string) {
		lg := xt.Load(filepath.Join(repo, "pkg/tss/internal/lagrange"))
		sc := xt.Load(filepath.Join(repo, "pkg/tss/internal/schnorr"))
		ts := xt.Load(filepath.Join(repo, "pkg/tss"))
		kp := xt.Load(filepath.Join(repo, "x/tss/keeper"))
		ty := xt.Load(filepath.Join(repo, "x/tss/types"))
		l := xt.NewLean(filepath.Join(out, "Frost.lean"), "pkg/tss signing: Lagrange tables, modulus, context string, function sources")
		l.P("namespace BandVerif.Generated.Frost")
		// N: new(big.Int).SetString("<decimal>", 10)
		nsrc := lg.Norm(lg.Expr("N"))
		i := strings.Index(nsrc, `SetString("`)
		j := strings.Index(nsrc, `",10)`)
		if i < 0 || j < 0 {
			xt.Fail("lagrange.N: unexpected initialiser %s", nsrc)
		}
		l.P("def groupOrder : Nat := %s", nsrc[i+len(`SetString("`):j])
		// keyed composite literals
		table := func(name string, render func(e ast.Expr) string) {
			cl, ok := lg.Expr(name).(*ast.CompositeLit)
			if !ok {
				xt.Fail("%s: not a composite literal", name)
			}
			var rows []string
			for _, e := range cl.Elts {
				kv, ok := e.(*ast.KeyValueExpr)
				if !ok {
					xt.Fail("%s: unkeyed element", name)
				}
				rows = append(rows, "("+lg.EvalInt(kv.Key).String()+", "+render(kv.Value)+")")
			}
			l.P("def %s : List (Nat × %s) := [%s]", name, map[string]string{"PRIME_FACTORS": "List (Nat × Nat)", "PRECOMPUTED_POWERS": "List Nat"}[name], strings.Join(rows, ", "))
		}
		table("PRIME_FACTORS", func(e ast.Expr) string {
			var ps []string
			for _, p := range e.(*ast.CompositeLit).Elts {
				pc := p.(*ast.CompositeLit)
				ps = append(ps, "("+lg.EvalInt(pc.Elts[0]).String()+", "+lg.EvalInt(pc.Elts[1]).String()+")")
			}
			return "[" + strings.Join(ps, ", ") + "]"
		})
		table("PRECOMPUTED_POWERS", func(e ast.Expr) string {
			var ps []string
			for _, p := range e.(*ast.CompositeLit).Elts {
				ps = append(ps, lg.EvalInt(p).String())
			}
			return "[" + strings.Join(ps, ", ") + "]"
		})
		l.P("def contextString : String := %s", xt.LeanStr(ts.Str("ContextString")))
		src := func(name string, pk *xt.Pkg, recv, fn string) {
			l.P("def src_%s : String := %s", name, xt.LeanStr(pk.Norm(pk.Func(recv, fn).Body)))
		}
		src("ComputeCoefficient", lg, "", "ComputeCoefficient")
		src("ComputeCoefficientPreCompute", lg, "", "ComputeCoefficientPreCompute")
		src("checkLagrangeInput", ts, "", "checkLagrangeInput")
		src("ComputeLagrangeCoefficient", ts, "", "ComputeLagrangeCoefficient")
		src("ComputeCommitment", ts, "", "ComputeCommitment")
		src("ComputeOwnPubNonce", ts, "", "ComputeOwnPubNonce")
		src("ComputeGroupPublicNonce", ts, "", "ComputeGroupPublicNonce")
		src("CombineSignatures", ts, "", "CombineSignatures")
		src("VerifySigningSignature", ts, "", "VerifySigningSignature")
		src("VerifyGroupSigningSignature", ts, "", "VerifyGroupSigningSignature")
		src("Sign", ts, "", "Sign")
		src("Verify", ts, "", "Verify")
		src("HashChallenge", ts, "", "HashChallenge")
		src("HashBindingFactor", ts, "", "HashBindingFactor")
		src("PointAddress", ts, "Point", "Address")
		src("schnorrVerify", sc, "", "Verify")
		src("schnorrComputeSignatureS", sc, "", "ComputeSignatureS")
		src("SubmitSignature", kp, "msgServer", "SubmitSignature")
		src("VerifySignatureR", ty, "AssignedMembers", "VerifySignatureR")
		_ = token.ADD
		l.P("end BandVerif.Generated.Frost")
		l.Write()
	})
}
