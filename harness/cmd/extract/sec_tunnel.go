package main

import (
	"go/ast"
	"path/filepath"
	"strings"

	"verifharness/internal/xt"
)

// Tunnel.lean (C08): the comparison operators of GenerateNewPrices / ProducePacket and the shape of
// ProduceActiveTunnelPacket (fund check -> deactivate; cache context written only on success).
func init() {
	register("Tunnel", func(repo, out string) {
		k := xt.Load(filepath.Join(repo, "x/tunnel/keeper"))
		l := xt.NewLean(filepath.Join(out, "Tunnel.lean"), "x/tunnel/keeper: GenerateNewPrices, calculateDeviationBPS, ProducePacket, ProduceActiveTunnelPacket")
		l.P("namespace BandVerif.Generated.Tunnel")
		norm := func(fd *ast.FuncDecl) string { return k.Norm(fd.Body) }
		pickOne := func(what, body string, opts [][2]string) {
			for _, o := range opts {
				if strings.Contains(body, o[0]) {
					l.P("/-- %s: `%s` -/\n%s", what, o[0], o[1])
					return
				}
			}
			xt.Fail("%s: not recognised", what)
		}
		must := func(what, body, frag string) {
			if !strings.Contains(body, frag) {
				xt.Fail("%s: `%s` not found", what, frag)
			}
		}
		g := norm(k.Func("", "GenerateNewPrices"))
		pickOne("hard-deviation branch", g, [][2]string{
			{"ifsendAll||deviation.GTE(sdkmath.NewIntFromUint64(sd.HardDeviationBPS)){newFeedPrices=append(newFeedPrices,feedPrice)shouldSend=true}", "def hardBranch (sendAll : Bool) (dev hard : Nat) : Bool := sendAll || decide (dev ≥ hard)"},
			{"ifsendAll||deviation.GT(sdkmath.NewIntFromUint64(sd.HardDeviationBPS)){newFeedPrices=append(newFeedPrices,feedPrice)shouldSend=true}", "def hardBranch (sendAll : Bool) (dev hard : Nat) : Bool := sendAll || decide (dev > hard)"},
		})
		pickOne("soft-deviation branch", g, [][2]string{
			{"elseifdeviation.GTE(sdkmath.NewIntFromUint64(sd.SoftDeviationBPS)){newFeedPrices=append(newFeedPrices,feedPrice)}", "def softBranch (dev soft : Nat) : Bool := decide (dev ≥ soft)"},
			{"elseifdeviation.GT(sdkmath.NewIntFromUint64(sd.SoftDeviationBPS)){newFeedPrices=append(newFeedPrices,feedPrice)}", "def softBranch (dev soft : Nat) : Bool := decide (dev > soft)"},
		})
		must("GenerateNewPrices", g, "deviation:=calculateDeviationBPS(oldPrice,sdkmath.NewIntFromUint64(feedPrice.Price))")
		must("GenerateNewPrices", g, "ifshouldSend{returnnewFeedPrices}else{return[]feedstypes.Price{}}")
		must("GenerateNewPrices", g, "shouldSend:=false")
		must("GenerateNewPrices", g, "oldPrice:=sdkmath.NewInt(0)iflatestPrices,ok:=latestPricesMap[sd.SignalID];ok{oldPrice=sdkmath.NewIntFromUint64(latestPrices.Price)}")
		must("GenerateNewPrices", g, "feedPrice,ok:=feedsPricesMap[sd.SignalID]if!ok{feedPrice=feedstypes.NewPrice(feedstypes.PRICE_STATUS_NOT_IN_CURRENT_FEEDS,sd.SignalID,0,timestamp)}")
		d := norm(k.Func("", "calculateDeviationBPS"))
		pickOne("calculateDeviationBPS", d, [][2]string{
			{"{ifnewPrice.Equal(oldPrice){returnsdkmath.ZeroInt()}ifoldPrice.IsZero(){returnsdkmath.NewInt(math.MaxInt64)}returnnewPrice.Sub(oldPrice).Abs().MulRaw(10000).Quo(oldPrice)}",
				"def deviationBPS (old new : Nat) : Nat :=\n  if new = old then 0 else if old = 0 then 9223372036854775807 else (if new ≥ old then new - old else old - new) * 10000 / old"},
		})
		pp := norm(k.Func("Keeper", "ProducePacket"))
		pickOne("interval test", pp, [][2]string{
			{"sendAll:=unixNow>=int64(tunnel.Interval)+latestPrices.LastInterval", "def dueAll (now interval last : Int) : Bool := decide (now ≥ interval + last)"},
			{"sendAll:=unixNow>int64(tunnel.Interval)+latestPrices.LastInterval", "def dueAll (now interval last : Int) : Bool := decide (now > interval + last)"},
		})
		pickOne("ProducePacket step order", pp, [][2]string{
			{"iflen(newPrices)==0{returnnil}packet,err:=k.CreatePacket(ctx,tunnel.ID,newPrices)iferr!=nil{returnerr}iferr:=k.SendPacket(ctx,packet);err!=nil{returnsdkerrors.Wrapf(err,\"failed to send packet for tunnel %d\",tunnel.ID)}latestPrices.UpdatePrices(newPrices)ifsendAll{latestPrices.LastInterval=unixNow}k.SetLatestPrices(ctx,latestPrices)",
				"def producePacketOrder : List String := [\"emptyStops\", \"createPacket\", \"sendPacket\", \"updateLatest\", \"intervalOnlyIfSendAll\"]"},
		})
		pa := norm(k.Func("Keeper", "ProduceActiveTunnelPacket"))
		pickOne("ProduceActiveTunnelPacket shape", pa, [][2]string{
			{"{ok,err:=k.HasEnoughFundToCreatePacket(ctx,tunnelID)iferr!=nil{returnerr}if!ok{returnk.DeactivateTunnel(ctx,tunnelID)}cacheCtx,writeFn:=ctx.CacheContext()iferr:=k.ProducePacket(cacheCtx,tunnelID,pricesMap);err!=nil{returnerr}writeFn()returnnil}",
				"def produceActiveShape : List String := [\"fundCheck\", \"deactivateIfUnderfunded\", \"cacheContext\", \"writeOnlyOnSuccess\"]"},
		})
		cp := norm(k.Func("Keeper", "CreatePacket"))
		must("CreatePacket", cp, "tunnel.Sequence++")
		pickOne("CreatePacket sequence", cp, [][2]string{
			{"tunnel.Sequence++", "def sequenceStep : Nat := 1"},
		})
		l.P("end BandVerif.Generated.Tunnel")
		l.Write()
	})
}
