package main

import (
	"go/ast"
	"path/filepath"
	"strings"

	"verifharness/internal/xt"
)

// Feeds.lean: constants and straight-line integer functions of x/feeds/types used by C06/C07/C15.
func init() {
	register("Feeds", func(repo, out string) {
		p := xt.Load(filepath.Join(repo, "x/feeds/types"))
		l := xt.NewLean(filepath.Join(out, "Feeds.lean"), "x/feeds/types: constants, SumPower, CalculateInterval, CalculateDeviation")
		l.P("import BandVerif.Common.I64")
		l.P("namespace BandVerif.Generated.Feeds")
		l.P("def maxSignalIDCharacters : Nat := %s", p.Int("MaxSignalIDCharacters").String())
		l.P("def maxGuaranteeBlockTime : Int := %s", p.Int("MaxGuaranteeBlockTime").String())
		l.P("")
		for _, n := range []string{"CalculateInterval", "CalculateDeviation"} {
			fd := p.Func("", n)
			args := []xt.LeanArg{}
			atoms := map[string]string{}
			for _, f := range fd.Type.Params.List {
				for _, nm := range f.Names {
					args = append(args, xt.LeanArg{Name: nm.Name, Type: "Int"})
				}
			}
			lean := "c" + n[1:]
			l.P("%s", xt.TranslateFunc(p, fd, xt.FuncSpec{LeanName: lean, Args: args, Atoms: atoms, Kind: "i64", Ret: "Int", Consts: p}))
		}
		// SumPower: `for _, signal := range signals { sum += signal.Power }` over the list of powers
		fd := p.Func("", "SumPower")
		l.P("%s", xt.TranslateFunc(p, fd, xt.FuncSpec{LeanName: "sumPower", Args: []xt.LeanArg{{Name: "signals", Type: "List Int"}},
			Atoms: map[string]string{"signal.Power": "signal"}, Kind: "i64", Ret: "Int", Consts: p}))
		l.P("%s", lockSum(repo))
		l.P("end BandVerif.Generated.Feeds")
		l.Write()
	})
}

// lockSum reads keeper.LockVoterPower and classifies how the power handed to
// restake.SetLockedPower is computed from the signals: through types.SumPower (int64, wraps)
// or by an arbitrary-precision accumulation. Anything else fails extraction.
func lockSum(repo string) string {
	k := xt.Load(filepath.Join(repo, "x/feeds/keeper"))
	fd := k.Func("Keeper", "LockVoterPower")
	var arg ast.Expr
	ast.Inspect(fd.Body, func(n ast.Node) bool {
		if ce, ok := n.(*ast.CallExpr); ok {
			if se, ok := ce.Fun.(*ast.SelectorExpr); ok && se.Sel.Name == "SetLockedPower" && len(ce.Args) == 4 {
				arg = ce.Args[3]
			}
		}
		return true
	})
	if arg == nil {
		xt.Fail("LockVoterPower: no SetLockedPower call")
	}
	norm := func(n ast.Node) string { return k.Norm(n) }
	body := norm(fd.Body)
	a := norm(arg)
	switch {
	case strings.HasPrefix(a, "math.NewInt(") && strings.Contains(body, strings.TrimSuffix(strings.TrimPrefix(a, "math.NewInt("), ")")+":=types.SumPower(signals)"):
		return "/-- LockVoterPower: math.NewInt(types.SumPower(signals)) — the int64 sum -/\ndef lockSum (powers : List Int) : Int := sumPower powers\n"
	case strings.Contains(body, a+":=math.ZeroInt()") && strings.Contains(body, "for_,signal:=rangesignals{"+a+"="+a+".Add(math.NewInt(signal.Power))}"):
		return "/-- LockVoterPower: arbitrary-precision accumulation of the signal powers -/\ndef lockSum (powers : List Int) : Int := powers.foldl (fun acc x => acc + x) 0\n"
	}
	xt.Fail("LockVoterPower: unrecognised computation of the locked power: %s", a)
	return ""
}
