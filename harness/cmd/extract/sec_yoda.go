package main

import (
	"path/filepath"

	"verifharness/internal/xt"
)

// Yoda.lean (C19): normalised source of yoda's request handling and of the chain's report validation.
func init() {
	register("Yoda", func(repo, out string) {
		y := xt.Load(filepath.Join(repo, "yoda"))
		k := xt.Load(filepath.Join(repo, "x/oracle/keeper"))
		t := xt.Load(filepath.Join(repo, "x/oracle/types"))
		l := xt.NewLean(filepath.Join(out, "Yoda.lean"), "yoda request handling and chain report validation: function sources")
		l.P("namespace BandVerif.Generated.Yoda")
		src := func(name string, pk *xt.Pkg, recv, fn string) {
			l.P("def src_%s : String := %s", name, xt.LeanStr(pk.Norm(pk.Func(recv, fn).Body)))
		}
		src("handleRequest", y, "", "handleRequest")
		src("handleRawRequests", y, "", "handleRawRequests")
		src("handleRawRequest", y, "", "handleRawRequest")
		src("GetExecutable", y, "", "GetExecutable")
		src("GetDataSourceHash", y, "", "GetDataSourceHash")
		src("GetRequest", y, "", "GetRequest")
		src("abciQuery", y, "", "abciQuery")
		src("CheckValidReport", k, "Keeper", "CheckValidReport")
		src("ReportValidateBasic", t, "MsgReportData", "ValidateBasic")
		l.P("end BandVerif.Generated.Yoda")
		l.Write()
	})
}
