package main

import (
	"go/ast"
	"path/filepath"
	"strings"

	"verifharness/internal/xt"
)

// Status.lean (C15): feeds CheckMissReport translated statement by statement, and the guards of
// oracle Activate / MissReport read as comparison operators.
func init() {
	register("Status", func(repo, out string) {
		ft := xt.Load(filepath.Join(repo, "x/feeds/types"))
		fk := xt.Load(filepath.Join(repo, "x/feeds/keeper"))
		ok := xt.Load(filepath.Join(repo, "x/oracle/keeper"))
		l := xt.NewLean(filepath.Join(out, "Status.lean"), "x/feeds/keeper CheckMissReport; x/oracle/keeper Activate / MissReport guards")
		l.P("import BandVerif.Common.I64")
		l.P("namespace BandVerif.Generated.Status")
		fd := fk.Func("", "CheckMissReport")
		l.P("%s", xt.TranslateFunc(fk, fd, xt.FuncSpec{
			LeanName: "checkMissReport",
			Args: []xt.LeanArg{{Name: "interval", Type: "Int"}, {Name: "lastUpdateTimestamp", Type: "Int"}, {Name: "lastUpdateBlock", Type: "Int"},
				{Name: "hasPrice", Type: "Bool"}, {Name: "priceTs", Type: "Int"}, {Name: "priceBlock", Type: "Int"}, {Name: "since", Type: "Int"},
				{Name: "blockTime", Type: "Int"}, {Name: "blockHeight", Type: "Int"}, {Name: "gracePeriod", Type: "Int"}},
			Atoms: map[string]string{
				"valInfo.Status.Since.Unix()": "since",
				"valPrice.SignalPriceStatus != types.SIGNAL_PRICE_STATUS_UNSPECIFIED": "hasPrice = true",
				"valPrice.Timestamp":   "priceTs",
				"valPrice.BlockHeight": "priceBlock",
				"feed.Interval":        "interval",
				"blockTime.Unix()":     "blockTime",
			},
			Kind: "i64", Ret: "Bool", Consts: ft,
		}))
		norm := func(pk *xt.Pkg, fd *ast.FuncDecl) string { return pk.Norm(fd.Body) }
		act := norm(ok, ok.Func("Keeper", "Activate"))
		if !strings.Contains(act, "ifstatus.IsActive{returntypes.ErrValidatorAlreadyActive}") {
			xt.Fail("Activate: already-active guard not recognised")
		}
		switch {
		case strings.Contains(act, "if!status.Since.IsZero()&&status.Since.Add(penaltyDuration).After(ctx.BlockHeader().Time){returntypes.ErrTooSoonToActivate}"):
			l.P("/-- Activate: `!status.Since.IsZero() && status.Since.Add(penaltyDuration).After(now)` (times in ns) -/\ndef tooSoon (sinceZero : Bool) (since penalty now : Int) : Bool := !sinceZero && decide (since + penalty > now)")
		case strings.Contains(act, "if!status.Since.IsZero()&&!status.Since.Add(penaltyDuration).Before(ctx.BlockHeader().Time){returntypes.ErrTooSoonToActivate}"):
			l.P("def tooSoon (sinceZero : Bool) (since penalty now : Int) : Bool := !sinceZero && decide (since + penalty ≥ now)")
		case strings.Contains(act, "if!status.Since.IsZero()&&status.Since.Add(penaltyDuration).Before(ctx.BlockHeader().Time){returntypes.ErrTooSoonToActivate}"):
			l.P("def tooSoon (sinceZero : Bool) (since penalty now : Int) : Bool := !sinceZero && decide (since + penalty < now)")
		default:
			xt.Fail("Activate: penalty guard not recognised")
		}
		if !strings.Contains(act, "k.SetValidatorStatus(ctx,val,types.NewValidatorStatus(true,ctx.BlockHeader().Time))") {
			xt.Fail("Activate: status write not recognised")
		}
		mr := norm(ok, ok.Func("Keeper", "MissReport"))
		if !strings.Contains(mr, "k.SetValidatorStatus(ctx,val,types.NewValidatorStatus(false,ctx.BlockHeader().Time))") {
			xt.Fail("MissReport: status write not recognised")
		}
		switch {
		case strings.Contains(mr, "ifstatus.IsActive&&status.Since.Before(requestTime){"):
			l.P("/-- MissReport: `status.IsActive && status.Since.Before(requestTime)` -/\ndef missApplies (active : Bool) (since requestTime : Int) : Bool := active && decide (since < requestTime)")
		case strings.Contains(mr, "ifstatus.IsActive&&!status.Since.After(requestTime){"):
			l.P("def missApplies (active : Bool) (since requestTime : Int) : Bool := active && decide (since ≤ requestTime)")
		case strings.Contains(mr, "ifstatus.IsActive||status.Since.Before(requestTime){"):
			l.P("def missApplies (active : Bool) (since requestTime : Int) : Bool := active || decide (since < requestTime)")
		case strings.Contains(mr, "ifstatus.IsActive{"):
			l.P("def missApplies (active : Bool) (since requestTime : Int) : Bool := active")
		default:
			xt.Fail("MissReport: guard not recognised")
		}
		// feeds MsgSubmitSignalPrices and its admission check: normalised text (compared with the reviewed text in Model/FeedsSubmitSrc.lean)
		l.P("def src_SubmitSignalPrices : String := %s", xt.LeanStr(fk.Norm(fk.Func("msgServer", "SubmitSignalPrices").Body)))
		l.P("def src_ValidateValidatorRequiredToSend : String := %s", xt.LeanStr(fk.Norm(fk.Func("Keeper", "ValidateValidatorRequiredToSend").Body)))
		l.P("def src_NewValidatorPrice : String := %s", xt.LeanStr(ft.Norm(ft.Func("", "NewValidatorPrice").Body)))
		l.P("end BandVerif.Generated.Status")
		l.Write()
	})
}
