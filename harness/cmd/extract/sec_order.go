package main

import (
	"go/ast"
	"path/filepath"
	"strings"

	"verifharness/internal/xt"
)

// ModuleOrder.lean: the begin/end-block module orders of app/modules.go (package aliases as written,
// e.g. "oracletypes" for oracletypes.ModuleName).
func init() {
	register("ModuleOrder", func(repo, out string) {
		p := xt.Load(filepath.Join(repo, "app"))
		l := xt.NewLean(filepath.Join(out, "ModuleOrder.lean"), "app/modules.go orderBeginBlockers / orderEndBlockers")
		l.P("namespace BandVerif.Generated.ModuleOrder")
		for _, fn := range []struct{ goName, lean string }{{"orderBeginBlockers", "beginBlockers"}, {"orderEndBlockers", "endBlockers"}} {
			fd := p.Func("", fn.goName)
			var names []string
			ast.Inspect(fd.Body, func(n ast.Node) bool {
				if cl, ok := n.(*ast.CompositeLit); ok {
					for _, e := range cl.Elts {
						se, ok := e.(*ast.SelectorExpr)
						if !ok || se.Sel.Name != "ModuleName" && se.Sel.Name != "SubModuleName" {
							xt.Fail("%s: unexpected element %s", fn.goName, p.Src(e))
						}
						names = append(names, "\""+se.X.(*ast.Ident).Name+"\"")
					}
					return false
				}
				return true
			})
			if len(names) == 0 {
				xt.Fail("%s: no module list", fn.goName)
			}
			l.P("def %s : List String := [%s]", fn.lean, strings.Join(names, ", "))
		}
		l.P("end BandVerif.Generated.ModuleOrder")
		l.Write()
	})
}
