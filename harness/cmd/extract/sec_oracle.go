package main

import (
	"go/ast"
	"path/filepath"
	"strings"

	"verifharness/internal/xt"
)

// Oracle.lean (C01): the guards of ReportData / ProcessExpiredRequests / EndBlocker read as operators.
func init() {
	register("Oracle", func(repo, out string) {
		k := xt.Load(filepath.Join(repo, "x/oracle/keeper"))
		m := xt.Load(filepath.Join(repo, "x/oracle"))
		l := xt.NewLean(filepath.Join(out, "Oracle.lean"), "x/oracle: guards of ReportData, ProcessExpiredRequests, EndBlocker order")
		l.P("namespace BandVerif.Generated.Oracle")
		norm := func(pk *xt.Pkg, fd *ast.FuncDecl) string { return pk.Norm(fd.Body) }
		pickOne := func(what, body string, opts [][2]string) {
			for _, o := range opts {
				if strings.Contains(body, o[0]) {
					l.P("/-- %s: `%s` -/\n%s", what, o[0], o[1])
					return
				}
			}
			xt.Fail("%s: guard not recognised", what)
		}
		rd := norm(k, k.Func("msgServer", "ReportData"))
		pickOne("ReportData pending trigger", rd, [][2]string{
			{"ifk.GetReportCount(ctx,msg.RequestID)==req.MinCount{", "def pendingTrigger (count min : Nat) : Bool := count == min"},
			{"ifk.GetReportCount(ctx,msg.RequestID)>=req.MinCount{", "def pendingTrigger (count min : Nat) : Bool := decide (count ≥ min)"},
			{"ifk.GetReportCount(ctx,msg.RequestID)>req.MinCount{", "def pendingTrigger (count min : Nat) : Bool := decide (count > min)"},
		})
		pickOne("ReportData expiry check", rd, [][2]string{
			{"ifmsg.RequestID<=k.GetRequestLastExpired(ctx){returnnil,types.ErrRequestAlreadyExpired}", "def alreadyExpired (rid last : Nat) : Bool := decide (rid ≤ last)"},
			{"ifmsg.RequestID<k.GetRequestLastExpired(ctx){returnnil,types.ErrRequestAlreadyExpired}", "def alreadyExpired (rid last : Nat) : Bool := decide (rid < last)"},
		})
		pickOne("ReportData in-time flag", rd, [][2]string{
			{"reportInTime:=!k.HasResult(ctx,msg.RequestID)", "def inTimeIsNoResult : Bool := true"},
		})
		if !strings.Contains(rd, "ifreportInTime{req:=k.MustGetRequest(ctx,msg.RequestID)") {
			xt.Fail("ReportData: pending trigger no longer guarded by reportInTime")
		}
		pe := norm(k, k.Func("Keeper", "ProcessExpiredRequests"))
		pickOne("ProcessExpiredRequests stop test", pe, [][2]string{
			{"ifreq.RequestHeight+expirationBlockCount>ctx.BlockHeight(){break}", "def notYetExpired (reqHeight exp height : Int) : Bool := decide (reqHeight + exp > height)"},
			{"ifreq.RequestHeight+expirationBlockCount>=ctx.BlockHeight(){break}", "def notYetExpired (reqHeight exp height : Int) : Bool := decide (reqHeight + exp ≥ height)"},
		})
		pickOne("ProcessExpiredRequests result guard", pe, [][2]string{
			{"if!k.HasResult(ctx,currentReqID){k.ResolveExpired(ctx,currentReqID)}", "def expiryOnlyIfNoResult : Bool := true"},
		})
		pickOne("ProcessExpiredRequests miss guard", pe, [][2]string{
			{"if!k.HasReport(ctx,currentReqID,v){k.MissReport(ctx,v,time.Unix(req.RequestTime,0))}", "def missOnlyNonReporters : Bool := true"},
		})
		if !strings.Contains(pe, "k.DeleteRequest(ctx,currentReqID)k.DeleteReports(ctx,currentReqID)k.SetRequestLastExpired(ctx,currentReqID)") {
			xt.Fail("ProcessExpiredRequests: cleanup sequence not recognised")
		}
		eb := norm(m, m.Func("", "EndBlocker"))
		pickOne("EndBlocker order", eb, [][2]string{
			{"for_,reqID:=rangek.GetPendingResolveList(ctx){k.ResolveRequest(ctx,reqID)}k.SetPendingResolveList(ctx,[]types.RequestID{})k.ProcessExpiredRequests(ctx)", "def endBlockOrder : List String := [\"resolvePending\", \"clearPending\", \"processExpired\"]"},
		})
		l.P("end BandVerif.Generated.Oracle")
		l.Write()
	})
}
