package main

import (
	"go/ast"
	"go/token"
	"math/big"
	"path/filepath"
	"strconv"
	"strings"

	"verifharness/internal/xt"
)

// Tick.lean (C11): pkg/tickmath constants, the table of binary-tick prices, and the normalised source of
// the three functions (so that any edit to the algorithm is visible to a theorem).
func init() {
	register("Tick", func(repo, out string) {
		p := xt.Load(filepath.Join(repo, "pkg/tickmath"))
		l := xt.NewLean(filepath.Join(out, "Tick.lean"), "pkg/tickmath/tickmath.go constants, binary-tick table, function sources")
		l.P("namespace BandVerif.Generated.Tick")
		l.P("def maxTick : Int := %s", p.Int("MaxTick").String())
		l.P("def offset : Int := %s", p.Int("Offset").String())
		// MinTick = -MaxTick
		if p.Norm(p.Expr("MinTick")) != "-MaxTick" {
			xt.Fail("MinTick is no longer -MaxTick")
		}
		fd := p.Func("", "getPricesX96AtBinaryTicks")
		var vals []string
		ast.Inspect(fd.Body, func(n ast.Node) bool {
			if cl, ok := n.(*ast.CompositeLit); ok {
				for _, e := range cl.Elts {
					if bl, ok := e.(*ast.BasicLit); ok && bl.Kind == token.STRING {
						s, err := strconv.Unquote(bl.Value)
						if err != nil {
							xt.Fail("binary tick table: bad literal")
						}
						v, ok := new(big.Int).SetString(s, 16)
						if !ok {
							xt.Fail("binary tick table: bad hex %q", s)
						}
						vals = append(vals, v.String())
					}
				}
				return false
			}
			return true
		})
		if len(vals) == 0 {
			xt.Fail("binary tick table not found")
		}
		l.P("def priceX96AtBinaryTicks : List Nat := [%s]", strings.Join(vals, ", "))
		for _, c := range [][2]string{{"q96", "1000000000000000000000000"}, {"maxUint192", "ffffffffffffffffffffffffffffffffffffffffffffffff"}, {"maxUint64", "ffffffffffffffff"}} {
			src := p.Norm(p.Expr(c[0]))
			if !strings.Contains(src, `SetString("`+c[1]+`",16)`) {
				xt.Fail("%s: unexpected initialiser %s", c[0], src)
			}
		}
		if !strings.Contains(p.Norm(p.Expr("billion")), "SetUint64(1000000000)") {
			xt.Fail("billion: unexpected initialiser")
		}
		for _, fn := range []string{"TickToPrice", "PriceToTick", "tickToPriceX96", "mulShift"} {
			l.P("def src_%s : String := %s", fn, xt.LeanStr(p.Norm(p.Func("", fn).Body)))
		}
		l.P("end BandVerif.Generated.Tick")
		l.Write()
	})
}
