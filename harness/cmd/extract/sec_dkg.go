package main

import (
	"path/filepath"

	"verifharness/internal/xt"
)

// Dkg.lean (C04): normalised source of the DKG functions modelled by Model/Dkg.lean.
func init() {
	register("Dkg", func(repo, out string) {
		ts := xt.Load(filepath.Join(repo, "pkg/tss"))
		kp := xt.Load(filepath.Join(repo, "x/tss/keeper"))
		ty := xt.Load(filepath.Join(repo, "x/tss/types"))
		cy := xt.Load(filepath.Join(repo, "cylinder/workers/group"))
		l := xt.NewLean(filepath.Join(out, "Dkg.lean"), "x/tss DKG: function sources")
		l.P("namespace BandVerif.Generated.Dkg")
		src := func(name string, pk *xt.Pkg, recv, fn string) {
			l.P("def src_%s : String := %s", name, xt.LeanStr(pk.Norm(pk.Func(recv, fn).Body)))
		}
		src("SubmitDKGRound1", kp, "msgServer", "SubmitDKGRound1")
		src("SubmitDKGRound2", kp, "msgServer", "SubmitDKGRound2")
		src("Complain", kp, "msgServer", "Complain")
		src("Confirm", kp, "msgServer", "Confirm")
		src("AddCoefficientCommits", kp, "Keeper", "AddCoefficientCommits")
		src("ValidateRound1Info", kp, "Keeper", "ValidateRound1Info")
		src("ProcessComplaint", kp, "Keeper", "ProcessComplaint")
		src("VerifyComplaintKeeper", kp, "Keeper", "VerifyComplaint")
		src("VerifyOwnPubKeySignatureKeeper", kp, "Keeper", "VerifyOwnPubKeySignature")
		src("HandleProcessGroup", kp, "Keeper", "HandleProcessGroup")
		src("HandleExpiredGroups", kp, "Keeper", "HandleExpiredGroups")
		src("UpdateMemberPubKey", kp, "Keeper", "UpdateMemberPubKey")
		src("MarkMemberMalicious", kp, "Keeper", "MarkMemberMalicious")
		src("ValidateMemberID", kp, "Keeper", "ValidateMemberID")
		src("AddConfirm", kp, "Keeper", "AddConfirm")
		src("AddComplaintsWithStatus", kp, "Keeper", "AddComplaintsWithStatus")
		src("FindMemberSlot", ty, "", "FindMemberSlot")
		src("ComputeOwnPublicKey", ts, "", "ComputeOwnPublicKey")
		src("VerifySecretShare", ts, "", "VerifySecretShare")
		src("ComputeSecretShareCommit", ts, "", "ComputeSecretShareCommit")
		src("VerifyComplaint", ts, "", "VerifyComplaint")
		src("VerifyComplaintSignature", ts, "", "VerifyComplaintSignature")
		src("solvePointPolynomial", ts, "", "solvePointPolynomial")
		src("getOwnPrivKey", cy, "", "getOwnPrivKey")
		src("getSecretShare", cy, "", "getSecretShare")
		l.P("end BandVerif.Generated.Dkg")
		l.Write()
	})
}
