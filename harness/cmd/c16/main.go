// c16: correspondence harness for C16 (restake). Real staking msg server (Delegate / Undelegate /
// BeginRedelegate, which fire the restake hooks), restake msg server (Stake / Unstake), keeper
// SetLockedPower from several vaults, DeactivateVault and SetParams(allowed denoms).
package main

import (
	"encoding/binary"
	"encoding/json"
	"strings"

	sdkmath "cosmossdk.io/math"
	storetypes "cosmossdk.io/store/types"

	sdk "github.com/cosmos/cosmos-sdk/types"
	authtypes "github.com/cosmos/cosmos-sdk/x/auth/types"
	stakingkeeper "github.com/cosmos/cosmos-sdk/x/staking/keeper"
	stakingtypes "github.com/cosmos/cosmos-sdk/x/staking/types"

	bandtesting "github.com/bandprotocol/chain/v3/testing"
	restakekeeper "github.com/bandprotocol/chain/v3/x/restake/keeper"
	restaketypes "github.com/bandprotocol/chain/v3/x/restake/types"

	"verifharness/internal/fx"
)

var denoms = []string{"uband", "ustk"}
var vaultKeys = []string{"feeds", "v2", "v3"}

type caseT struct {
	app   *fx.App
	ctx   sdk.Context
	tr    *fx.Trace
	r     *fx.Rng
	accts []bandtesting.Account
	sms   stakingtypes.MsgServer
	rms   restaketypes.MsgServer
	undel map[[2]int]int
	huge  bool // balances (hence stakes, powers, locks) around 2^63
}

func (c *caseT) delegTokens(a, v int) sdkmath.Int {
	d, err := c.app.StakingKeeper.GetDelegation(c.ctx, c.accts[a].Address, bandtesting.Validators[v].ValAddress)
	if err != nil {
		return sdkmath.ZeroInt()
	}
	val, err := c.app.StakingKeeper.GetValidator(c.ctx, bandtesting.Validators[v].ValAddress)
	fx.Must(err)
	return val.TokensFromShares(d.Shares).TruncateInt()
}

func (c *caseT) dump() fx.M {
	rk := c.app.RestakeKeeper
	var accts []fx.M
	store := c.ctx.KVStore(c.app.GetKey(restaketypes.StoreKey))
	for a, acc := range c.accts {
		st := rk.GetStake(c.ctx, acc.Address)
		stake, bal, deleg := []any{}, []any{}, []any{}
		for _, d := range denoms {
			stake = append(stake, json.Number(st.Coins.AmountOf(d).String()))
			bal = append(bal, json.Number(c.app.BankKeeper.GetBalance(c.ctx, acc.Address, d).Amount.String()))
		}
		for v := range bandtesting.Validators {
			deleg = append(deleg, json.Number(c.delegTokens(a, v).String()))
		}
		index := [][]any{}
		it := storetypes.KVStoreReversePrefixIterator(store, restaketypes.LocksByPowerIndexKey(acc.Address))
		for ; it.Valid(); it.Next() {
			k := it.Key()
			al := int(k[1])
			pw := binary.BigEndian.Uint64(k[2+al : 2+al+8])
			index = append(index, []any{fx.U(pw), string(k[2+al+8:])})
		}
		it.Close()
		accts = append(accts, fx.M{"stake": stake, "deleg": deleg, "index": index, "bal": bal})
	}
	vaults := [][]any{}
	for _, k := range vaultKeys {
		if v, ok := rk.GetVault(c.ctx, k); ok {
			vaults = append(vaults, []any{k, v.IsActive})
		}
	}
	module := []any{}
	maddr := c.app.AccountKeeper.GetModuleAddress(restaketypes.ModuleName)
	for _, d := range denoms {
		module = append(module, json.Number(c.app.BankKeeper.GetBalance(c.ctx, maddr, d).Amount.String()))
	}
	return fx.M{"accts": accts, "vaults": vaults, "module": module}
}

func (c *caseT) emit(m fx.M, errS string) {
	// staking-level rejections (max entries, transitive redelegation, ...) are not part of the model
	if strings.HasPrefix(errS, "staking/") {
		c.tr.Tag("skipped-" + errS)
		return
	}
	out := c.dump()
	out["err"] = errS
	m["out"] = out
	c.tr.Op(m)
}

func (c *caseT) totalPower(a int) sdkmath.Int {
	p, err := c.app.RestakeKeeper.GetTotalPower(c.ctx, c.accts[a].Address)
	fx.Must(err)
	return p
}

func (c *caseT) maxLock(a int) sdkmath.Int {
	m := sdkmath.ZeroInt()
	for _, l := range c.app.RestakeKeeper.GetLocksByAddress(c.ctx, c.accts[a].Address) {
		if c.app.RestakeKeeper.IsActiveVault(c.ctx, l.Key) && l.Power.GT(m) {
			m = l.Power
		}
	}
	return m
}

// amount for a power-reducing op: exactly down to the lock, one below, everything, or random
func (c *caseT) reduceAmt(a int, have sdkmath.Int) sdkmath.Int {
	if !have.IsPositive() {
		return sdkmath.ZeroInt()
	}
	slack := c.totalPower(a).Sub(c.maxLock(a))
	var amt sdkmath.Int
	switch c.r.Intn(5) {
	case 0:
		amt = slack
	case 1:
		amt = slack.AddRaw(1)
	case 2:
		amt = have
	case 3:
		amt = sdkmath.OneInt()
	default:
		amt = sdkmath.NewIntFromUint64(c.r.U64()).Mod(have).AddRaw(1)
	}
	if amt.LT(sdkmath.OneInt()) {
		amt = sdkmath.OneInt()
	}
	if amt.GT(have) {
		amt = have
	}
	return amt
}

func (c *caseT) op() {
	r := c.r
	a := r.Intn(len(c.accts))
	acc := c.accts[a]
	rk := c.app.RestakeKeeper
	switch x := r.Intn(20); {
	case x < 3: // stake
		d := denoms[r.Intn(len(denoms))]
		bal := c.app.BankKeeper.GetBalance(c.ctx, acc.Address, d).Amount
		amt := sdkmath.NewInt(int64(r.PickInt(1, 5, 100, 1000)))
		if r.Chance(1, 10) {
			amt = bal.AddRaw(1)
		}
		if c.huge && r.Chance(1, 2) && bal.GT(sdkmath.NewInt(2000)) {
			amt = bal.SubRaw(int64(r.PickInt(0, 1, 10, 1000))) // (nearly) everything: powers around 2^63
		}
		msg := &restaketypes.MsgStake{StakerAddress: acc.Address.String(), Coins: sdk.NewCoins(sdk.NewCoin(d, amt))}
		e := fx.Atomically(c.ctx, func(ctx sdk.Context) error { _, err := c.rms.Stake(ctx, msg); return err })
		c.emit(fx.M{"op": "stake", "acct": a, "denom": d, "amt": json.Number(amt.String())}, e)
	case x < 6: // unstake
		d := denoms[r.Intn(len(denoms))]
		if al := rk.GetParams(c.ctx).AllowedDenoms; len(al) > 0 && r.Chance(2, 3) {
			// mostly a denom that still counts as power (the account may also hold coins of a denom no longer allowed)
			d = al[r.Intn(len(al))]
		}
		have := rk.GetStake(c.ctx, acc.Address).Coins.AmountOf(d)
		amt := c.reduceAmt(a, have)
		if r.Chance(1, 10) {
			amt = have.AddRaw(1)
		}
		if amt.IsZero() {
			return
		}
		msg := &restaketypes.MsgUnstake{StakerAddress: acc.Address.String(), Coins: sdk.NewCoins(sdk.NewCoin(d, amt))}
		e := fx.Atomically(c.ctx, func(ctx sdk.Context) error { _, err := c.rms.Unstake(ctx, msg); return err })
		c.emit(fx.M{"op": "unstake", "acct": a, "denom": d, "amt": json.Number(amt.String())}, e)
	case x < 8 && rk.GetStake(c.ctx, acc.Address).Coins.Len() >= 2 && r.Chance(1, 2): // unstake several denoms in one message (the locks are checked once, on the whole result)
		st := rk.GetStake(c.ctx, acc.Address).Coins
		coins := sdk.NewCoins()
		js := [][]any{}
		for _, d := range denoms {
			have := st.AmountOf(d)
			if !have.IsPositive() {
				continue
			}
			amt := c.reduceAmt(a, have)
			if r.Chance(1, 3) {
				amt = sdkmath.OneInt()
			}
			if amt.IsPositive() {
				coins = coins.Add(sdk.NewCoin(d, amt))
			}
		}
		if len(coins) < 2 {
			return
		}
		for _, cn := range coins {
			js = append(js, []any{cn.Denom, json.Number(cn.Amount.String())})
		}
		msg := &restaketypes.MsgUnstake{StakerAddress: acc.Address.String(), Coins: coins}
		e := fx.Atomically(c.ctx, func(ctx sdk.Context) error { _, err := c.rms.Unstake(ctx, msg); return err })
		c.emit(fx.M{"op": "unstakeMulti", "acct": a, "coins": js}, e)
	case x < 9: // delegate
		v := r.Intn(len(bandtesting.Validators))
		amt := int64(r.PickInt(1, 5, 100, 1000))
		msg := stakingtypes.NewMsgDelegate(acc.Address.String(), bandtesting.Validators[v].ValAddress.String(), sdk.NewInt64Coin("uband", amt))
		e := fx.Atomically(c.ctx, func(ctx sdk.Context) error { _, err := c.sms.Delegate(ctx, msg); return err })
		c.emit(fx.M{"op": "delegate", "acct": a, "val": v, "amt": amt}, e)
	case x < 12: // undelegate
		v := r.Intn(len(bandtesting.Validators))
		amt := c.reduceAmt(a, c.delegTokens(a, v)).Int64()
		if amt == 0 || c.undel[[2]int{a, v}] >= 6 {
			return
		}
		msg := stakingtypes.NewMsgUndelegate(acc.Address.String(), bandtesting.Validators[v].ValAddress.String(), sdk.NewInt64Coin("uband", amt))
		e := fx.Atomically(c.ctx, func(ctx sdk.Context) error { _, err := c.sms.Undelegate(ctx, msg); return err })
		if e == "" {
			c.undel[[2]int{a, v}]++
		}
		c.emit(fx.M{"op": "undelegate", "acct": a, "val": v, "amt": amt}, e)
	case x < 14: // redelegate
		src := r.Intn(len(bandtesting.Validators))
		dst := (src + 1 + r.Intn(len(bandtesting.Validators)-1)) % len(bandtesting.Validators)
		amt := c.reduceAmt(a, c.delegTokens(a, src)).Int64()
		if amt == 0 {
			return
		}
		msg := stakingtypes.NewMsgBeginRedelegate(acc.Address.String(), bandtesting.Validators[src].ValAddress.String(),
			bandtesting.Validators[dst].ValAddress.String(), sdk.NewInt64Coin("uband", amt))
		e := fx.Atomically(c.ctx, func(ctx sdk.Context) error { _, err := c.sms.BeginRedelegate(ctx, msg); return err })
		c.emit(fx.M{"op": "redelegate", "acct": a, "src": src, "dst": dst, "amt": amt}, e)
	case x < 18: // setLock
		k := vaultKeys[r.Intn(len(vaultKeys))]
		tp := c.totalPower(a)
		var p sdkmath.Int
		switch r.Intn(8) {
		case 0:
			p = tp
		case 1:
			p = tp.AddRaw(1)
		case 2:
			p = sdkmath.ZeroInt()
		case 3:
			p = sdkmath.NewInt(-1)
		case 4:
			p = sdkmath.NewIntFromUint64(1 << 63).MulRaw(2) // 2^64
		case 5:
			if tp.IsPositive() {
				p = tp.SubRaw(1)
			} else {
				p = sdkmath.ZeroInt()
			}
		default:
			p = sdkmath.NewIntFromUint64(r.U64()).Mod(tp.AddRaw(2))
		}
		e := fx.Atomically(c.ctx, func(ctx sdk.Context) error { return rk.SetLockedPower(ctx, acc.Address, k, p) })
		c.emit(fx.M{"op": "setLock", "acct": a, "vault": k, "power": json.Number(p.String())}, e)
	case x < 19: // deactivate vault
		k := vaultKeys[r.Intn(len(vaultKeys))]
		e := fx.Atomically(c.ctx, func(ctx sdk.Context) error { return rk.DeactivateVault(ctx, k) })
		c.emit(fx.M{"op": "deactivate", "vault": k}, e)
	default: // allowed denoms
		l := [][]string{{"uband", "ustk"}, {"uband"}, {"ustk"}, {}}[r.Intn(4)]
		fx.Must(rk.SetParams(c.ctx, restaketypes.Params{AllowedDenoms: l}))
		c.emit(fx.M{"op": "setAllowed", "denoms": l}, "")
	}
}

// reimport: the module's genesis is exported and a branch of the store initialised from it (an upgrade by export/import);
// observed through the same dump, nothing may differ — stakes, locks and their by-power index, vaults, the module balance
func (c *caseT) reimport() {
	cctx, _ := c.ctx.CacheContext()
	saved := c.ctx
	e := fx.Try(func() error {
		g := c.app.RestakeKeeper.ExportGenesis(cctx)
		if err := g.Validate(); err != nil {
			return err
		}
		wipe(cctx.KVStore(c.app.GetKey(restaketypes.StoreKey)))
		c.app.RestakeKeeper.InitGenesis(cctx, g)
		return nil
	})
	c.ctx = cctx
	out := c.dump()
	c.ctx = saved
	out["err"] = e
	c.tr.Op(fx.M{"op": "reimport", "out": out})
}

// wipe empties a module store (on a branch): the import then starts from nothing but the genesis, as on a new chain
func wipe(st storetypes.KVStore) {
	var keys [][]byte
	it := st.Iterator(nil, nil)
	for ; it.Valid(); it.Next() {
		keys = append(keys, append([]byte{}, it.Key()...))
	}
	it.Close()
	for _, k := range keys {
		st.Delete(k)
	}
}

func runCase(app *fx.App, tr *fx.Trace, r *fx.Rng) {
	ctx, _ := app.Ctx.CacheContext()
	c := &caseT{app: app, ctx: ctx, tr: tr, r: r, accts: []bandtesting.Account{bandtesting.Alice, bandtesting.Bob, bandtesting.Carol},
		sms: stakingkeeper.NewMsgServerImpl(app.StakingKeeper), rms: restakekeeper.NewMsgServerImpl(app.RestakeKeeper), undel: map[[2]int]int{}}
	// the property is stated for validators with share/token rate 1: the genesis validators have
	// 1 share for all their tokens, so re-denominate shares = tokens (validator and its genesis delegation)
	for _, v := range bandtesting.Validators {
		val, err := app.StakingKeeper.GetValidator(ctx, v.ValAddress)
		fx.Must(err)
		val.DelegatorShares = sdkmath.LegacyNewDecFromInt(val.Tokens)
		fx.Must(app.StakingKeeper.SetValidator(ctx, val))
		dels, err := app.StakingKeeper.GetValidatorDelegations(ctx, v.ValAddress)
		fx.Must(err)
		for _, d := range dels {
			d.Shares = val.DelegatorShares
			fx.Must(app.StakingKeeper.SetDelegation(ctx, d))
		}
	}
	c.huge = r.Chance(1, 5)
	if c.huge {
		tr.Tag("powers-around-2^63")
	}
	allowed := [][]string{{"uband", "ustk"}, {"uband"}, {"ustk"}}[r.Intn(3)]
	fx.Must(app.RestakeKeeper.SetParams(ctx, restaketypes.Params{AllowedDenoms: allowed}))
	for _, a := range c.accts {
		for _, d := range denoms {
			// normalise balances to a known small amount
			bal := app.BankKeeper.GetBalance(ctx, a.Address, d)
			if bal.Amount.IsPositive() {
				fx.Must(app.BankKeeper.SendCoinsFromAccountToModule(ctx, a.Address, authtypes.FeeCollectorName, sdk.NewCoins(bal)))
			}
			amt := sdkmath.NewInt(int64(r.PickInt(50, 5000, 100000)))
			if c.huge && d != "uband" {
				amt = sdkmath.NewIntFromUint64(1 << 63).AddRaw(int64(r.PickInt(-1000, 5, 100000))) // powers around 2^63
			}
			app.Fund(ctx, a.Address, d, amt)
		}
	}
	var deleg, bal [][]any
	d0 := c.dump()
	for _, a := range d0["accts"].([]fx.M) {
		deleg = append(deleg, a["deleg"].([]any))
		bal = append(bal, a["bal"].([]any))
	}
	tr.Reset(fx.M{"naccts": len(c.accts), "nvals": len(bandtesting.Validators), "denoms": denoms, "vaultKeys": vaultKeys,
		"allowed": allowed, "deleg": deleg, "bal": bal})
	n := r.Range(10, 60)
	for i := 0; i < n; i++ {
		c.op()
		if r.Chance(1, 15) {
			c.reimport()
		}
	}
	c.reimport()
}

func main() {
	a := fx.ParseArgs()
	app := fx.NewApp()
	defer app.Close()
	tr := fx.NewTrace(a.Out)
	n := a.Cases
	if n == 0 {
		n = 500
	}
	r := fx.NewRng(a.Seed)
	for i := 0; i < n; i++ {
		runCase(app, tr, r.Fork())
	}
	tr.Close()
	tr.WriteStats(a.Stats, nil)
}
