package main

import (
	"context"
	"errors"
	"strconv"
	"sync/atomic"

	"google.golang.org/grpc"
	"google.golang.org/grpc/metadata"

	grpctypes "github.com/cosmos/cosmos-sdk/types/grpc"

	"github.com/bandprotocol/chain/v3/grogu/querier"

	"verifharness/internal/fx"
)

// querierCase drives grogu's multi-node query helper (the REAL getMaxBlockHeightResponse, one shared maximum as in a
// running daemon) with nodes that answer at different block heights, lag behind, or are down: what grogu decides on is
// the answer it returns, so an answer older than one returned before means deciding on a chain state that lacks grogu's
// own latest accepted submission.
func querierCase(tr *fx.Trace, r *fx.Rng) {
	tr.Reset(fx.M{"querier": true})
	var max atomic.Int64
	nodes := r.Range(1, 3)
	head := int64(r.Range(1, 50))
	calls := r.Range(5, 25)
	for c := 0; c < calls; c++ {
		head += int64(r.PickInt(0, 0, 1, 1, 2))
		var fs []querier.QueryFunction[int, int64]
		answers := []int64{}
		for k := 0; k < nodes; k++ {
			h := head - int64(r.PickInt(0, 0, 0, 1, 1, 2, 5)) // most nodes are at the head, some lag
			if k > 0 && r.Chance(1, 4) {
				h = -1 // down
			}
			if k == 0 && r.Chance(1, 4) {
				h = -1 // the up-to-date node stops answering for a while
			}
			if h < -1 {
				h = 0
			}
			answers = append(answers, h)
			hh := h
			fs = append(fs, func(ctx context.Context, in *int, opts ...grpc.CallOption) (*int64, error) {
				if hh < 0 {
					return nil, errors.New("node down")
				}
				for _, o := range opts {
					if ho, ok := o.(grpc.HeaderCallOption); ok {
						*ho.HeaderAddr = metadata.Pairs(grpctypes.GRPCBlockHeightHeader, strconv.FormatInt(hh, 10))
					}
				}
				v := hh
				return &v, nil
			})
		}
		in := 0
		got := int64(-1)
		errS := fx.Try(func() error {
			resp, err := querier.MaxBlockHeightResponseForVerif(fs, &in, &max)
			if err == nil && resp != nil {
				got = *resp
			}
			return err
		})
		tr.Op(fx.M{"op": "query", "answers": answers, "out": fx.M{"height": got, "refused": errS != ""}})
	}
}
