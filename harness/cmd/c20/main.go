// c20 runs the REAL grogu signaller (one round per tick through the verif hook, clock injected) and the REAL grogu
// submitter (its Start loop, tx building, broadcast and confirmation polling) against an in-process chain: the feed
// querier is the real feeds query server, broadcast transactions are decoded and their MsgSubmitSignalPrices delivered
// to the real feeds msg server at a block time lagging the signaller's clock, and the price service is scripted.
// Broadcast faults (error, rejected tx, confirmation never found) exercise the in-flight bookkeeping.
package main

import (
	"context"
	"crypto/sha256"
	"encoding/hex"
	"fmt"
	"sort"
	"strings"
	"sync"
	"time"

	abci "github.com/cometbft/cometbft/abci/types"
	cmtbytes "github.com/cometbft/cometbft/libs/bytes"
	rpcclient "github.com/cometbft/cometbft/rpc/client"
	coretypes "github.com/cometbft/cometbft/rpc/core/types"
	cmttypes "github.com/cometbft/cometbft/types"

	"github.com/cosmos/cosmos-sdk/client"
	"github.com/cosmos/cosmos-sdk/client/flags"
	"github.com/cosmos/cosmos-sdk/codec"
	codectypes "github.com/cosmos/cosmos-sdk/codec/types"
	"github.com/cosmos/cosmos-sdk/crypto/hd"
	"github.com/cosmos/cosmos-sdk/crypto/keyring"
	sdk "github.com/cosmos/cosmos-sdk/types"
	sdkerrors "github.com/cosmos/cosmos-sdk/types/errors"
	authtypes "github.com/cosmos/cosmos-sdk/x/auth/types"
	"github.com/cosmos/cosmos-sdk/x/authz"

	bothanclient "github.com/bandprotocol/bothan/bothan-api/client/go-client"
	bothan "github.com/bandprotocol/bothan/bothan-api/client/go-client/proto/bothan/v1"

	"github.com/bandprotocol/chain/v3/grogu/signaller"
	"github.com/bandprotocol/chain/v3/grogu/submitter"
	"github.com/bandprotocol/chain/v3/pkg/logger"
	bandtesting "github.com/bandprotocol/chain/v3/testing"
	feedskeeper "github.com/bandprotocol/chain/v3/x/feeds/keeper"
	feedstypes "github.com/bandprotocol/chain/v3/x/feeds/types"
	oracletypes "github.com/bandprotocol/chain/v3/x/oracle/types"

	"verifharness/internal/fx"
)

const dpStart, dpOffset = 50, 30

// ---- the chain as grogu sees it ------------------------------------------------------------------------
type world struct {
	mu      sync.Mutex
	app     *fx.App
	ctx     sdk.Context
	val     sdk.ValAddress
	qs      feedstypes.QueryServer
	ms      feedstypes.MsgServer
	now     int64 // the signaller's clock
	lag     int64 // block time = now - lag
	prices  map[string]*bothan.Price
	fault   string // next broadcast: "" | "error" | "reject" | "noconfirm"
	results map[string]*sdk.TxResponse
	deliv   []fx.M // deliveries to the chain during this tick
	seq     uint64
}

func (w *world) blockCtx() sdk.Context { return w.ctx.WithBlockTime(time.Unix(w.now-w.lag, 0)) }

// FeedQuerier on the real query server
func (w *world) QueryValidValidator(v sdk.ValAddress) (*feedstypes.QueryValidValidatorResponse, error) {
	w.mu.Lock()
	defer w.mu.Unlock()
	return w.qs.ValidValidator(w.blockCtx(), &feedstypes.QueryValidValidatorRequest{Validator: v.String()})
}
func (w *world) QueryValidatorPrices(v sdk.ValAddress) (*feedstypes.QueryValidatorPricesResponse, error) {
	w.mu.Lock()
	defer w.mu.Unlock()
	return w.qs.ValidatorPrices(w.blockCtx(), &feedstypes.QueryValidatorPricesRequest{Validator: v.String()})
}
func (w *world) QueryParams() (*feedstypes.QueryParamsResponse, error) {
	w.mu.Lock()
	defer w.mu.Unlock()
	return w.qs.Params(w.blockCtx(), &feedstypes.QueryParamsRequest{})
}
func (w *world) QueryCurrentFeeds() (*feedstypes.QueryCurrentFeedsResponse, error) {
	w.mu.Lock()
	defer w.mu.Unlock()
	return w.qs.CurrentFeeds(w.blockCtx(), &feedstypes.QueryCurrentFeedsRequest{})
}

// price service
type priceService struct {
	bothanclient.Client
	w *world
}

func (p priceService) GetPrices(ids []string) (*bothan.GetPricesResponse, error) {
	p.w.mu.Lock()
	defer p.w.mu.Unlock()
	var out []*bothan.Price
	for _, id := range ids {
		if pr, ok := p.w.prices[id]; ok {
			out = append(out, pr)
		}
	}
	return &bothan.GetPricesResponse{Uuid: "u", Prices: out}, nil
}
func (p priceService) GetInfo() (*bothan.GetInfoResponse, error) {
	return &bothan.GetInfoResponse{}, nil
}
func (p priceService) PushMonitoringRecords(string, string) error { return nil }

// node
type node struct {
	rpcclient.RemoteClient
	w *world
}

func (n node) Remote() string { return "verif" }
func (n node) ABCIQueryWithOptions(context.Context, string, cmtbytes.HexBytes, rpcclient.ABCIQueryOptions) (*coretypes.ResultABCIQuery, error) {
	sim := &sdk.SimulationResponse{GasInfo: sdk.GasInfo{GasWanted: 100000, GasUsed: 100000}}
	bz, _ := codec.NewProtoCodec(n.w.app.InterfaceRegistry()).GRPCCodec().Marshal(sim)
	return &coretypes.ResultABCIQuery{Response: abci.ResponseQuery{Codespace: sdkerrors.RootCodespace, Height: 1, Value: bz}}, nil
}
func (n node) BroadcastTxSync(_ context.Context, txb cmttypes.Tx) (*coretypes.ResultBroadcastTx, error) {
	w := n.w
	w.mu.Lock()
	defer w.mu.Unlock()
	fault := w.fault
	w.fault = ""
	hash := txb.Hash()
	if fault == "error" {
		w.deliv = append(w.deliv, fx.M{"fault": "error"})
		return nil, fmt.Errorf("node unreachable")
	}
	tx, err := w.app.GetTxConfig().TxDecoder()(txb)
	fx.Must(err)
	var inner *feedstypes.MsgSubmitSignalPrices
	for _, m := range tx.GetMsgs() {
		if ex, ok := m.(*authz.MsgExec); ok {
			ms, err := ex.GetMessages()
			fx.Must(err)
			for _, im := range ms {
				if sp, ok := im.(*feedstypes.MsgSubmitSignalPrices); ok {
					inner = sp
				}
			}
		}
	}
	if inner == nil {
		return nil, fmt.Errorf("no price message")
	}
	if fault == "reject" {
		w.deliv = append(w.deliv, fx.M{"fault": "reject"})
		return &coretypes.ResultBroadcastTx{Code: 5, Codespace: "sdk", Hash: hash}, nil
	}
	// deliver to the real chain at the current block time (timestamp taken from the signaller's clock: the real
	// submitter stamps wall-clock time, which the harness cannot move)
	inner.Timestamp = w.now
	e := fx.Atomically(w.blockCtx(), func(ctx sdk.Context) error { _, err := w.ms.SubmitSignalPrices(ctx, inner); return err })
	var sent []any
	for _, p := range inner.SignalPrices {
		sent = append(sent, []any{p.SignalID, int(p.Status), fx.U(p.Price)})
	}
	w.deliv = append(w.deliv, fx.M{"prices": sent, "err": e, "blockTime": w.now - w.lag})
	code := uint32(0)
	if e != "" {
		code = 1
	}
	if fault != "noconfirm" {
		w.results[hex.EncodeToString(hash)] = &sdk.TxResponse{TxHash: hex.EncodeToString(hash), Code: code, Codespace: "feeds"}
	}
	return &coretypes.ResultBroadcastTx{Code: 0, Hash: hash}, nil
}

// auth / tx queriers
func (w *world) QueryAccount(addr sdk.Address) (*authtypes.QueryAccountResponse, error) {
	w.mu.Lock()
	defer w.mu.Unlock()
	w.seq++
	acc := authtypes.NewBaseAccount(sdk.AccAddress(addr.Bytes()), nil, 7, w.seq)
	any, err := codectypes.NewAnyWithValue(acc)
	if err != nil {
		return nil, err
	}
	return &authtypes.QueryAccountResponse{Account: any}, nil
}
func (w *world) QueryTx(hash string) (*sdk.TxResponse, error) {
	w.mu.Lock()
	defer w.mu.Unlock()
	if r, ok := w.results[strings.ToLower(hash)]; ok {
		return r, nil
	}
	return nil, fmt.Errorf("tx not found")
}

func pendingList(m *sync.Map) []string {
	out := []string{}
	m.Range(func(k, _ any) bool { out = append(out, k.(string)); return true })
	sort.Strings(out)
	return out
}

var sigs = []string{"CS:A", "CS:B", "CS:C", "CS:D"}

func runCase(app *fx.App, tr *fx.Trace, r *fx.Rng, caseNo int) {
	ctx, _ := app.Ctx.CacheContext()
	val := bandtesting.Validators[0].ValAddress
	w := &world{app: app, ctx: ctx, val: val, qs: feedskeeper.NewQueryServer(app.FeedsKeeper), ms: feedskeeper.NewMsgServerImpl(app.FeedsKeeper),
		prices: map[string]*bothan.Price{}, results: map[string]*sdk.TxResponse{}}
	w.now = 1_700_000_000 + int64(r.Range(0, 1000))
	w.lag = int64(r.PickInt(0, 1, 2, 3))
	// chain state: params, current feeds, an oracle-active bonded validator
	p := app.FeedsKeeper.GetParams(ctx)
	p.CooldownTime = int64(r.PickInt(5, 10, 30))
	p.AllowableBlockTimeDiscrepancy = 1_000_000
	devBP := int64(r.PickInt(50, 50, 58, 100, 113, 116, 163, 500, 2999))
	p.MinDeviationBasisPoint, p.MaxDeviationBasisPoint = devBP, devBP
	fx.Must(app.FeedsKeeper.SetParams(ctx, p))
	fx.Must(app.OracleKeeper.Activate(ctx.WithBlockTime(time.Unix(w.now-10_000, 0)), val))
	nf := r.Range(1, len(sigs))
	var feeds []feedstypes.Feed
	var feedOut []any
	for i := 0; i < nf; i++ {
		f := feedstypes.Feed{SignalID: sigs[i], Power: 1_000_000_000 * int64(r.PickInt(1, 2, 10)), Interval: int64(r.PickInt(40, 60, 120, 300))}
		feeds = append(feeds, f)
	}
	app.FeedsKeeper.SetCurrentFeeds(ctx.WithBlockTime(time.Unix(w.now-10_000, 0)).WithBlockHeight(1), feeds)
	cf, err := w.QueryCurrentFeeds()
	fx.Must(err)
	// the interval that counts is the STORED one (the chain's miss rule reads it); the deviation comes with the query
	storedInterval := map[string]int64{}
	for _, f := range feeds {
		storedInterval[f.SignalID] = f.Interval
	}
	for _, f := range cf.CurrentFeeds.Feeds {
		feedOut = append(feedOut, []any{f.SignalID, storedInterval[f.SignalID], f.DeviationBasisPoint})
	}
	// grogu
	quiet := logger.NewLogger(func(string, string) bool { return true })
	pending := &sync.Map{}
	submitCh := make(chan submitter.SignalPriceSubmission, 64)
	sg := signaller.New(w, priceService{w: w}, 0, submitCh, quiet, val, pending, dpStart, dpOffset)
	kb := keyring.NewInMemory(app.AppCodec())
	_, _, err = kb.NewMnemonic("k1", keyring.English, sdk.FullFundraiserPath, keyring.DefaultBIP39Passphrase, hd.Secp256k1)
	fx.Must(err)
	cctx := client.Context{ChainID: bandtesting.ChainID, Codec: app.AppCodec(), InterfaceRegistry: app.InterfaceRegistry(), Keyring: kb,
		TxConfig: app.GetTxConfig(), BroadcastMode: flags.BroadcastSync}
	sb, err := submitter.New(cctx, []rpcclient.RemoteClient{node{w: w}}, priceService{w: w}, quiet, submitCh, w, w, val, pending,
		40*time.Millisecond, 2, time.Millisecond, "0uband")
	fx.Must(err)
	go sb.Start()
	tr.Reset(fx.M{"val": hex.EncodeToString(val.Bytes()), "cooldown": p.CooldownTime, "feeds": feedOut, "dpStart": dpStart, "dpOffset": dpOffset})
	base := map[string]uint64{}
	for _, s := range sigs {
		base[s] = uint64(r.PickInt(10_000, 10_000_000, 1_000_000_000, 10_000_000_000_000)) * uint64(r.Range(1, 9))
	}
	ticks := r.Range(20, 60)
	overlap := r.Chance(1, 2)
	flaky := r.Chance(1, 4)
	for t := 0; t < ticks; t++ {
		w.mu.Lock()
		w.now += int64(r.PickInt(1, 2, 3, 5, 9))
		// price stream: moves at / around the deviation threshold relative to the chain's stored price, status flips,
		// missing signals
		stored := map[string]uint64{}
		if vp0, err := w.qs.ValidatorPrices(w.blockCtx(), &feedstypes.QueryValidatorPricesRequest{Validator: val.String()}); err == nil {
			for _, v := range vp0.ValidatorPrices {
				if v.SignalPriceStatus == feedstypes.SIGNAL_PRICE_STATUS_AVAILABLE {
					stored[v.SignalID] = v.Price
				}
			}
		}
		priceOut := []any{}
		for i := 0; i < nf; i++ {
			s := sigs[i]
			if sp, ok := stored[s]; ok && sp > 0 {
				base[s] = sp
			}
			if r.Chance(1, 15) {
				delete(w.prices, s)
				continue
			}
			st := bothan.Status_STATUS_AVAILABLE
			switch r.Intn(14) {
			case 0:
				st = bothan.Status_STATUS_UNAVAILABLE
			case 1:
				st = bothan.Status_STATUS_UNSUPPORTED
			}
			pr := base[s]
			switch r.PickInt(0, 0, 0, 1, 2, 3, 4, 5) {
			case 0: // exactly at / just below the feed's deviation threshold
				pr = base[s] + base[s]*uint64(devBP)/10000
			case 1:
				pr = base[s] + base[s]*uint64(devBP)/10000 - 1
			case 2:
				pr = base[s] - base[s]*uint64(devBP)/10000
			case 3:
				pr = base[s] + uint64(r.Intn(3))
			case 4:
				base[s] = base[s] + base[s]/uint64(r.Range(50, 400))
				pr = base[s]
			}
			w.prices[s] = &bothan.Price{SignalId: s, Price: pr, Status: st}
			priceOut = append(priceOut, []any{s, int(st), fx.U(pr)})
		}
		// the chain's current-feed list changes (feeds.EndBlocker recomputes it periodically): a signal may drop out of it
		// and come back later
		var feedsNow []any
		if nf > 1 && r.Chance(1, 10) {
			k := r.Range(1, nf)
			app.FeedsKeeper.SetCurrentFeeds(ctx.WithBlockTime(time.Unix(w.now-10_000, 0)).WithBlockHeight(1), feeds[:k])
			if cf2, err := w.qs.CurrentFeeds(w.blockCtx(), &feedstypes.QueryCurrentFeedsRequest{}); err == nil {
				feedsNow = []any{}
				for _, f := range cf2.CurrentFeeds.Feeds {
					feedsNow = append(feedsNow, []any{f.SignalID, storedInterval[f.SignalID], f.DeviationBasisPoint})
				}
			}
			tr.Tag("current-feeds-changed")
		}
		// the validator may lose (and regain) its oracle-active status while staying bonded: the chain then refuses its prices
		if flaky && r.Chance(1, 6) {
			bctx := w.blockCtx()
			if app.OracleKeeper.GetValidatorStatus(bctx, val).IsActive {
				app.OracleKeeper.SetValidatorStatus(bctx, val, oracletypes.NewValidatorStatus(false, bctx.BlockTime()))
			} else {
				app.OracleKeeper.SetValidatorStatus(bctx, val, oracletypes.NewValidatorStatus(true, bctx.BlockTime()))
			}
			tr.Tag("oracle-status-flipped")
		}
		// governance changes the cooldown while the daemon runs (MsgUpdateParams): the next round decides with the new value
		var cooldownNow any
		if r.Chance(1, 25) {
			p2 := app.FeedsKeeper.GetParams(w.ctx)
			p2.CooldownTime = int64(r.PickInt(5, 10, 30, 60))
			if p2.Validate() == nil {
				fx.Must(app.FeedsKeeper.SetParams(w.ctx, p2))
				cooldownNow = p2.CooldownTime
				tr.Tag("cooldown-changed")
			}
		}
		mayFeed := app.FeedsKeeper.ValidateValidatorRequiredToSend(w.blockCtx(), val) == nil
		fault := ""
		switch r.Intn(12) {
		case 0:
			fault = "error"
		case 1:
			fault = "reject"
		case 2:
			fault = "noconfirm"
		}
		w.fault = fault
		w.deliv = nil
		now, lag := w.now, w.lag
		w.mu.Unlock()
		// what the chain holds before the round
		vp, err := w.QueryValidatorPrices(val)
		fx.Must(err)
		oldOut := []any{}
		for _, v := range vp.ValidatorPrices {
			oldOut = append(oldOut, []any{v.SignalID, int(v.SignalPriceStatus), fx.U(v.Price), v.Timestamp})
		}
		pendBefore := pendingList(pending)
		decided, nonPending, ran := sg.StepForVerif(time.Unix(now, 0))
		sort.Strings(nonPending)
		if nonPending == nil {
			nonPending = []string{}
		}
		// wait until the submitter has finished with this submission (or give up: never released)
		released := true
		waited := !(overlap && r.Chance(2, 3)) || t == ticks-1
		if len(decided) > 0 || (waited && len(pendBefore) > 0) {
			if !waited {
				goto emit
			}
			deadline := time.Now().Add(3 * time.Second)
			for {
				left := pendingList(pending)
				if len(left) == 0 {
					break
				}
				if time.Now().After(deadline) {
					released = false
					break
				}
				time.Sleep(2 * time.Millisecond)
			}
		}
	emit:
		decOut := []any{}
		for _, d := range decided {
			decOut = append(decOut, []any{d.SignalID, int(d.Status), fx.U(d.Price)})
		}
		w.mu.Lock()
		deliv := w.deliv
		w.mu.Unlock()
		if deliv == nil {
			deliv = []fx.M{}
		}
		line := fx.M{"op": "tick", "mayFeed": mayFeed, "now": now, "lag": lag, "prices": priceOut, "old": oldOut, "pendingBefore": pendBefore, "nonPending": nonPending, "fault": fault,
			"out": fx.M{"ran": ran, "decided": decOut, "deliveries": deliv, "released": released, "waited": waited, "pendingAfter": pendingList(pending)}}
		if feedsNow != nil {
			line["feeds"] = feedsNow
		}
		if cooldownNow != nil {
			line["cooldown"] = cooldownNow
		}
		tr.Op(line)
		if !released {
			break
		}
	}
	_ = sha256.Sum256
}

func main() {
	a := fx.ParseArgs()
	app := fx.NewApp()
	defer app.Close()
	tr := fx.NewTrace(a.Out)
	n := a.Cases
	if n == 0 {
		n = 30
	}
	r := fx.NewRng(a.Seed)
	for i := 0; i < n; i++ {
		runCase(app, tr, r.Fork(), i)
		if i%3 == 2 {
			querierCase(tr, r.Fork())
		}
	}
	tr.Close()
	tr.WriteStats(a.Stats, nil)
}
