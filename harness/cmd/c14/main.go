// c14: correspondence harness for C14 (block reward allocation).
// Real oracle.BeginBlocker and bandtss.BeginBlocker on the in-process app; observes bank balances,
// the community pool, validators' outstanding rewards and total supply, per denom.
package main

import (
	"encoding/json"
	"time"

	abci "github.com/cometbft/cometbft/abci/types"
	cmtproto "github.com/cometbft/cometbft/proto/tendermint/types"

	sdkmath "cosmossdk.io/math"

	sdk "github.com/cosmos/cosmos-sdk/types"
	authtypes "github.com/cosmos/cosmos-sdk/x/auth/types"
	distrtypes "github.com/cosmos/cosmos-sdk/x/distribution/types"

	"github.com/bandprotocol/chain/v3/pkg/tss"
	bandtesting "github.com/bandprotocol/chain/v3/testing"
	"github.com/bandprotocol/chain/v3/x/bandtss"
	bandtsstypes "github.com/bandprotocol/chain/v3/x/bandtss/types"
	"github.com/bandprotocol/chain/v3/x/oracle"
	oracletypes "github.com/bandprotocol/chain/v3/x/oracle/types"
	tsstypes "github.com/bandprotocol/chain/v3/x/tss/types"

	"verifharness/internal/fx"
)

var denoms = []string{"uband", "aaa", "zzz"}

func jn(i sdkmath.Int) json.Number { return json.Number(i.String()) }

// raw 18-decimal integer of a LegacyDec
func raw(d sdkmath.LegacyDec) sdkmath.Int { return sdkmath.NewIntFromBigInt(d.BigInt()) }

type snap struct {
	fee, supply map[string]sdkmath.Int
	community   map[string]sdkmath.Int   // raw dec
	outstanding []map[string]sdkmath.Int // per validator raw dec
	members     []map[string]sdkmath.Int
}

func genPool(r *fx.Rng) sdkmath.Int {
	switch r.Intn(10) {
	case 0:
		return sdkmath.ZeroInt()
	case 1:
		return sdkmath.NewInt(1)
	case 2:
		return sdkmath.NewInt(2)
	case 3:
		return sdkmath.NewInt(3)
	case 4:
		return sdkmath.NewInt(int64(r.PickInt(7, 97, 99, 100, 101, 199)))
	case 5:
		return sdkmath.NewInt(1_000_000_000_000_000_001)
	case 6:
		return sdkmath.NewIntFromUint64(r.U64())
	default:
		return sdkmath.NewInt(int64(r.Range(1, 100000)))
	}
}

func runCase(app *fx.App, tr *fx.Trace, r *fx.Rng) {
	ctx, _ := app.Ctx.CacheContext()
	tr.Reset(nil)
	ak, bk, dk, sk := app.AccountKeeper, app.BankKeeper, app.DistrKeeper, app.StakingKeeper
	feeAddr := ak.GetModuleAddress(authtypes.FeeCollectorName)
	// drain whatever the fee collector holds, then fund it with the generated pools
	if bal := bk.GetAllBalances(ctx, feeAddr); !bal.IsZero() {
		fx.Must(bk.SendCoinsFromModuleToAccount(ctx, authtypes.FeeCollectorName, bandtesting.Treasury.Address, bal))
	}
	nd := r.Range(1, 3)
	pools := map[string]sdkmath.Int{}
	for i := 0; i < nd; i++ {
		p := genPool(r)
		pools[denoms[i]] = p
		if p.IsPositive() {
			app.Fund(ctx, bandtesting.Treasury.Address, denoms[i], p)
			fx.Must(bk.SendCoinsFromAccountToModule(ctx, bandtesting.Treasury.Address, authtypes.FeeCollectorName, sdk.NewCoins(sdk.NewCoin(denoms[i], p))))
		}
	}
	// parameters
	opct := uint64(r.PickInt(0, 1, 33, 50, 70, 99, 100))
	tpct := uint64(r.PickInt(0, 1, 33, 50, 99, 100))
	op := app.OracleKeeper.GetParams(ctx)
	op.OracleRewardPercentage = opct
	fx.Must(app.OracleKeeper.SetParams(ctx, op))
	bp := app.BandtssKeeper.GetParams(ctx)
	bp.RewardPercentage = tpct
	fx.Must(app.BandtssKeeper.SetParams(ctx, bp))
	tax := sdkmath.LegacyMustNewDecFromStr(r.PickStr("0", "0.02", "0.333333333333333333", "0.5", "0.999999999999999999", "1"))
	dp, err := dk.Params.Get(ctx)
	fx.Must(err)
	dp.CommunityTax = tax
	fx.Must(dk.Params.Set(ctx, dp))
	// validators: activity, votes, proposer
	vals := bandtesting.Validators
	var votes []abci.VoteInfo
	var votesJ [][]any
	for i, v := range vals {
		if r.Chance(3, 4) {
			fx.Must(app.OracleKeeper.Activate(ctx, v.ValAddress))
		}
		if r.Chance(5, 6) {
			pw := int64(r.PickInt(0, 1, 2, 3, 100, 1000000, 99999999))
			val, _ := sk.GetValidator(ctx, v.ValAddress)
			cons, _ := val.GetConsAddr()
			// the flag says whether the validator's precommit made it into the last commit; the reward rule looks at the
			// validator set of the last block (every entry), not at who signed
			flag := []cmtproto.BlockIDFlag{cmtproto.BlockIDFlagCommit, cmtproto.BlockIDFlagCommit, cmtproto.BlockIDFlagAbsent, cmtproto.BlockIDFlagNil}[r.Intn(4)]
			votes = append(votes, abci.VoteInfo{Validator: abci.Validator{Address: cons, Power: pw}, BlockIdFlag: flag})
			votesJ = append(votesJ, []any{i, pw, app.OracleKeeper.GetValidatorStatus(ctx, v.ValAddress).IsActive})
		}
	}
	if votesJ == nil {
		votesJ = [][]any{}
	}
	proposer := r.Intn(len(vals))
	pval, _ := sk.GetValidator(ctx, vals[proposer].ValAddress)
	pcons, _ := pval.GetConsAddr()
	hdr := ctx.BlockHeader()
	hdr.ProposerAddress = pcons
	hdr.Time = time.Unix(1_700_000_100, 0).UTC()
	ctx = ctx.WithBlockHeader(hdr).WithVoteInfos(votes)
	// tss group
	hasGroup := r.Chance(5, 6)
	nm := r.PickInt(1, 1, 2, 3, 5) // a tss group always has at least one member
	var maddrs []sdk.AccAddress
	var membersJ [][]any
	gid := tss.GroupID(1)
	if hasGroup {
		app.BandtssKeeper.SetCurrentGroup(ctx, bandtsstypes.NewCurrentGroup(gid, ctx.BlockTime()))
		app.TSSKeeper.SetGroup(ctx, tsstypes.Group{ID: gid, Size_: uint64(nm), Threshold: 1, Status: tsstypes.GROUP_STATUS_ACTIVE, ModuleOwner: "bandtss"})
	}
	for i := 1; i <= nm; i++ {
		addr := sdk.AccAddress(append([]byte{byte(i), 0x77}, make([]byte, 18)...))
		act, de := r.Chance(4, 5), r.Chance(4, 5)
		app.TSSKeeper.SetMember(ctx, tsstypes.Member{ID: tss.MemberID(i), GroupID: gid, Address: addr.String(), IsActive: act})
		if de {
			fx.Must(app.TSSKeeper.EnqueueDEs(ctx, addr, []tsstypes.DE{{PubD: []byte{1}, PubE: []byte{2}}}))
		}
		maddrs = append(maddrs, addr)
		membersJ = append(membersJ, []any{act, de})
	}
	if membersJ == nil {
		membersJ = [][]any{}
	}
	distrAddr := ak.GetModuleAddress(distrtypes.ModuleName)
	_ = distrAddr
	take := func() snap {
		s := snap{fee: map[string]sdkmath.Int{}, supply: map[string]sdkmath.Int{}, community: map[string]sdkmath.Int{}}
		fp, err := dk.FeePool.Get(ctx)
		fx.Must(err)
		for _, d := range denoms {
			s.fee[d] = bk.GetBalance(ctx, feeAddr, d).Amount
			s.supply[d] = bk.GetSupply(ctx, d).Amount
			s.community[d] = raw(fp.CommunityPool.AmountOf(d))
		}
		for _, v := range vals {
			o, err := dk.GetValidatorOutstandingRewards(ctx, v.ValAddress)
			fx.Must(err)
			m := map[string]sdkmath.Int{}
			for _, d := range denoms {
				m[d] = raw(o.Rewards.AmountOf(d))
			}
			s.outstanding = append(s.outstanding, m)
		}
		for _, a := range maddrs {
			m := map[string]sdkmath.Int{}
			for _, d := range denoms {
				m[d] = bk.GetBalance(ctx, a, d).Amount
			}
			s.members = append(s.members, m)
		}
		return s
	}
	// the two allocators run in the order the application configures for its begin-blockers (app/modules.go): the bandtss
	// share must be taken from what the oracle share left
	oracleStep := func() {
		s0 := take()
		errO := fx.Try(func() error { return oracle.BeginBlocker(ctx, app.OracleKeeper) })
		s1 := take()
		for i := 0; i < nd; i++ {
			d := denoms[i]
			outs := []any{}
			for v := range vals {
				outs = append(outs, jn(s1.outstanding[v][d].Sub(s0.outstanding[v][d])))
			}
			tr.Op(fx.M{"op": "oracleAlloc", "denom": d, "pool": jn(s0.fee[d]), "pct": opct, "tax": jn(raw(tax)), "nvals": len(vals),
				"proposer": proposer, "votes": votesJ,
				"out": fx.M{"err": errO, "transferred": jn(s0.fee[d].Sub(s1.fee[d])), "community": jn(s1.community[d].Sub(s0.community[d])),
					"outstanding": outs, "supplyDelta": jn(s1.supply[d].Sub(s0.supply[d]))}})
		}
	}
	tssStep := func() {
		s1 := take()
		errT := fx.Try(func() error { return bandtss.BeginBlocker(ctx, app.BandtssKeeper) })
		s2 := take()
		for i := 0; i < nd; i++ {
			d := denoms[i]
			ms := []any{}
			for m := range maddrs {
				ms = append(ms, jn(s2.members[m][d].Sub(s1.members[m][d])))
			}
			tr.Op(fx.M{"op": "tssAlloc", "denom": d, "pool": jn(s1.fee[d]), "pct": tpct, "tax": jn(raw(tax)), "members": membersJ, "hasGroup": hasGroup,
				"out": fx.M{"err": errT, "transferred": jn(s1.fee[d].Sub(s2.fee[d])), "community": jn(s2.community[d].Sub(s1.community[d])),
					"members": ms, "supplyDelta": jn(s2.supply[d].Sub(s1.supply[d]))}})
		}
	}
	for _, name := range app.BeginBlockOrderForVerif() {
		switch name {
		case oracletypes.ModuleName:
			oracleStep()
		case bandtsstypes.ModuleName:
			tssStep()
		}
	}
}

func main() {
	a := fx.ParseArgs()
	app := fx.NewApp()
	defer app.Close()
	tr := fx.NewTrace(a.Out)
	n := a.Cases
	if n == 0 {
		n = 1500
	}
	r := fx.NewRng(a.Seed)
	for i := 0; i < n; i++ {
		runCase(app, tr, r.Fork())
	}
	tr.Close()
	tr.WriteStats(a.Stats, nil)
}
