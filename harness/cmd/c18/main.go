// c18: correspondence harness for C18 (group transition) — real MsgTransitionGroup / MsgForceTransitionGroup,
// real DKG of the incoming group (messages by tssfx.DKG, processing by the real tss EndBlocker), real hand-over
// signing by the current group, tss + bandtss end-blockers in module order, user requests during the transition.
package main

import (
	"encoding/hex"
	"sort"
	"time"

	sdkmath "cosmossdk.io/math"

	sdk "github.com/cosmos/cosmos-sdk/types"
	authtypes "github.com/cosmos/cosmos-sdk/x/auth/types"
	govtypes "github.com/cosmos/cosmos-sdk/x/gov/types"

	"github.com/bandprotocol/chain/v3/pkg/tss"
	bandtesting "github.com/bandprotocol/chain/v3/testing"
	"github.com/bandprotocol/chain/v3/x/bandtss"
	bandtsskeeper "github.com/bandprotocol/chain/v3/x/bandtss/keeper"
	bandtsstypes "github.com/bandprotocol/chain/v3/x/bandtss/types"
	tssmod "github.com/bandprotocol/chain/v3/x/tss"
	tsskeeper "github.com/bandprotocol/chain/v3/x/tss/keeper"
	tsstypes "github.com/bandprotocol/chain/v3/x/tss/types"

	"verifharness/internal/fx"
	"verifharness/internal/tssfx"
)

type caseT struct {
	app     *fx.App
	ctx     sdk.Context
	tr      *fx.Trace
	r       *fx.Rng
	bms     bandtsstypes.MsgServer
	tms     tsstypes.MsgServer
	addrIdx map[string]int
	groups  map[tss.GroupID]*tssfx.Group // finished groups able to sign
	dkg     *tssfx.DKG                   // incoming group in key generation
	now     int64
	height  int64
	minDur  int64
	maxDur  int64
	seed    int64
	fee     int64
	req     bandtesting.Account
}

func (c *caseT) idx(addr string) int {
	if i, ok := c.addrIdx[addr]; ok {
		return i
	}
	i := len(c.addrIdx)
	c.addrIdx[addr] = i
	return i
}

func (c *caseT) setClock() {
	c.ctx = c.ctx.WithBlockHeight(c.height).WithBlockTime(time.Unix(0, c.now).UTC())
}

func (c *caseT) dump() fx.M {
	bk := c.app.BandtssKeeper
	var tr any
	if t, ok := bk.GetGroupTransition(c.ctx); ok {
		tr = []any{int(t.Status), fx.I(t.ExecTime.UnixNano()), uint64(t.SigningID), uint64(t.IncomingGroupID), uint64(t.CurrentGroupID), t.IsForceTransition}
	}
	ms := [][]int{}
	for _, m := range bk.GetMembers(c.ctx) {
		ms = append(ms, []int{int(m.GroupID), c.idx(m.Address)})
	}
	sort.Slice(ms, func(i, j int) bool {
		if ms[i][0] != ms[j][0] {
			return ms[i][0] < ms[j][0]
		}
		return ms[i][1] < ms[j][1]
	})
	return fx.M{"current": uint64(bk.GetCurrentGroup(c.ctx).GroupID), "transition": tr, "members": ms}
}

func (c *caseT) emit(m fx.M, errS string, withErr bool) {
	out := c.dump()
	if withErr {
		out["err"] = errS
	}
	m["out"] = out
	c.tr.Op(m)
}

func (c *caseT) supplyDEs(g *tssfx.Group) {
	for id := 1; id <= int(g.N); id++ {
		q := c.app.TSSKeeper.GetDEQueue(c.ctx, g.Addr(id))
		if q.Tail-q.Head < 3 {
			des := g.NewDEs(id, 4)
			_, err := c.tms.SubmitDEs(c.ctx, &tsstypes.MsgSubmitDEs{DEs: des, Sender: g.Addr(id).String()})
			fx.Must(err)
		}
	}
}

func (c *caseT) registerGroup(g *tssfx.Group, makeCurrent bool) {
	ms := []int{}
	for id := 1; id <= int(g.N); id++ {
		ms = append(ms, c.idx(g.Addr(id).String()))
	}
	c.groups[g.GroupID] = g
	if makeCurrent {
		g.MakeCurrent(c.app, c.ctx)
	}
	c.emit(fx.M{"op": "setGroup", "gid": uint64(g.GroupID), "members": ms, "active": true, "makeCurrent": makeCurrent}, "", false)
}

func (c *caseT) execTime() int64 {
	r := c.r
	var d int64
	switch r.Intn(7) {
	case 0:
		d = c.minDur
	case 1:
		d = c.minDur - 1
	case 2:
		d = c.maxDur
	case 3:
		d = c.maxDur + 1
	default:
		d = c.minDur + int64(r.U64()%uint64(c.maxDur-c.minDur+1))
	}
	return c.now + d
}

func (c *caseT) propose() {
	r := c.r
	authOk := !r.Chance(1, 10)
	auth := authtypes.NewModuleAddress(govtypes.ModuleName).String()
	if !authOk {
		auth = bandtesting.Alice.Address.String()
	}
	n := r.Range(2, 3)
	c.seed++
	accts := tssfx.NewAccounts(c.seed, n)
	var members []string
	for _, a := range accts {
		members = append(members, a.Address.String())
	}
	th := uint64(r.Range(1, n))
	et := c.execTime()
	msg := &bandtsstypes.MsgTransitionGroup{Members: members, Threshold: th, ExecTime: time.Unix(0, et).UTC(), Authority: auth}
	before := c.app.TSSKeeper.GetGroupCount(c.ctx)
	e := fx.Atomically(c.ctx, func(ctx sdk.Context) error { _, err := c.bms.TransitionGroup(ctx, msg); return err })
	m := fx.M{"op": "propose", "authorityOk": authOk, "now": fx.I(c.now), "execTime": fx.I(et)}
	// `created`: what tss.CreateGroup would return (a fresh id and these members) — the model decides whether it is reached
	var ms []int
	for _, a := range accts {
		ms = append(ms, c.idx(a.Address.String()))
	}
	m["created"] = []any{before + 1, ms}
	if e == "" {
		c.dkg = &tssfx.DKG{GroupID: tss.GroupID(before + 1), Accounts: accts}
		if len(accts) >= 2 && c.r.Chance(1, 4) {
			// this key generation will FAIL: one member deals a bad share and is caught by a complaint
			c.dkg.CheatFrom = tss.MemberID(1 + c.r.Intn(len(accts)))
			c.dkg.CheatTo = c.dkg.CheatFrom%tss.MemberID(len(accts)) + 1
			c.tr.Tag("dkg-will-fail")
		}
	}
	c.emit(m, e, true)
}

func (c *caseT) force() {
	r := c.r
	authOk := !r.Chance(1, 10)
	auth := authtypes.NewModuleAddress(govtypes.ModuleName).String()
	if !authOk {
		auth = bandtesting.Alice.Address.String()
	}
	cnt := c.app.TSSKeeper.GetGroupCount(c.ctx)
	gid := tss.GroupID(1 + r.Intn(int(cnt)+1)) // sometimes an unknown id
	_, err := c.app.TSSKeeper.GetGroup(c.ctx, gid)
	et := c.execTime()
	msg := &bandtsstypes.MsgForceTransitionGroup{IncomingGroupID: gid, ExecTime: time.Unix(0, et).UTC(), Authority: auth}
	e := fx.Atomically(c.ctx, func(ctx sdk.Context) error { _, err := c.bms.ForceTransitionGroup(ctx, msg); return err })
	c.emit(fx.M{"op": "force", "authorityOk": authOk, "now": fx.I(c.now), "execTime": fx.I(et), "gid": uint64(gid), "exists": err == nil}, e, true)
}

type sigSnap struct{ status int }

func (c *caseT) endBlock() {
	tk, bk := c.app.TSSKeeper, c.app.BandtssKeeper
	// snapshot tss state
	gcnt := tk.GetGroupCount(c.ctx)
	gstat := map[uint64]tsstypes.GroupStatus{}
	for g := uint64(1); g <= gcnt; g++ {
		gr, _ := tk.GetGroup(c.ctx, tss.GroupID(g))
		gstat[g] = gr.Status
	}
	scnt := tk.GetSigningCount(c.ctx)
	sstat := map[uint64]tsstypes.SigningStatus{}
	for s := uint64(1); s <= scnt; s++ {
		sg, _ := tk.GetSigning(c.ctx, tss.SigningID(s))
		sstat[s] = sg.Status
	}
	pendingSigs := tk.GetPendingProcessSignings(c.ctx)
	escrow0 := c.app.BankKeeper.GetBalance(c.ctx, c.app.AccountKeeper.GetModuleAddress(bandtsstypes.ModuleName), "uband").Amount
	// expected payout: completed CURRENT-group signings with a fee pay fee x assigned
	expected := int64(0)
	for _, sid := range pendingSigs {
		bid := bk.GetSigningIDMapping(c.ctx, sid)
		if bid == 0 {
			continue
		}
		bs, err := bk.GetSigning(c.ctx, bid)
		if err != nil {
			continue
		}
		if bs.CurrentGroupSigningID == sid && !bs.FeePerSigner.IsZero() {
			sg, _ := tk.GetSigning(c.ctx, sid)
			sa, _ := tk.GetSigningAttempt(c.ctx, sid, sg.CurrentAttempt)
			expected -= bs.FeePerSigner.AmountOf("uband").Int64() * int64(len(sa.AssignedMembers))
		}
	}
	e := fx.Try(func() error { return tssmod.EndBlocker(c.ctx, tk) })
	// events, in the order the tss end-blocker produces them: groups, then completed signings, then failed ones
	var evs []fx.M
	tr, hasTr := bk.GetGroupTransition(c.ctx)
	for g := uint64(1); g <= tk.GetGroupCount(c.ctx); g++ {
		gr, _ := tk.GetGroup(c.ctx, tss.GroupID(g))
		if old, ok := gstat[g]; ok && old != gr.Status {
			switch gr.Status {
			case tsstypes.GROUP_STATUS_ACTIVE:
				signOk := hasTr && tr.Status == bandtsstypes.TRANSITION_STATUS_WAITING_SIGN && uint64(tr.IncomingGroupID) == g
				evs = append(evs, fx.M{"e": "creationCompleted", "gid": g, "signOk": signOk, "sid": uint64(tr.SigningID)})
			case tsstypes.GROUP_STATUS_FALLEN:
				evs = append(evs, fx.M{"e": "creationFailed", "gid": g})
			case tsstypes.GROUP_STATUS_EXPIRED:
				evs = append(evs, fx.M{"e": "creationExpired", "gid": g})
			}
		}
	}
	var failed []fx.M
	for s := uint64(1); s <= scnt; s++ {
		sg, _ := tk.GetSigning(c.ctx, tss.SigningID(s))
		if sstat[s] != sg.Status {
			if sg.Status == tsstypes.SIGNING_STATUS_SUCCESS {
				evs = append(evs, fx.M{"e": "signingCompleted", "sid": s})
			} else if sg.Status == tsstypes.SIGNING_STATUS_FALLEN {
				failed = append(failed, fx.M{"e": "signingFailed", "sid": s})
			}
		}
	}
	evs = append(evs, failed...)
	if evs == nil {
		evs = []fx.M{}
	}
	if e != "" {
		c.tr.Op(fx.M{"op": "tssEnd", "events": evs, "now": fx.I(c.now), "out": fx.M{"panic": true, "err": e}})
	} else {
		c.emit(fx.M{"op": "tssEnd", "events": evs, "now": fx.I(c.now)}, "", false)
	}
	escrow1 := c.app.BankKeeper.GetBalance(c.ctx, c.app.AccountKeeper.GetModuleAddress(bandtsstypes.ModuleName), "uband").Amount
	if len(pendingSigs) > 0 {
		m := fx.M{"op": "payout", "expected": expected, "obs": fx.M{"escrowDelta": escrow1.Sub(escrow0).Int64()}}
		c.emit(m, "", false)
	}
	// a group that just became ACTIVE through the DKG can sign from now on
	if c.dkg != nil {
		if gr, err := tk.GetGroup(c.ctx, c.dkg.GroupID); err == nil && gr.Status == tsstypes.GROUP_STATUS_ACTIVE {
			g := c.dkg.AsGroup(c.ctx, tk)
			c.groups[g.GroupID] = g
			c.supplyDEs(g)
			c.dkg = nil
		} else if err == nil && (gr.Status == tsstypes.GROUP_STATUS_EXPIRED || gr.Status == tsstypes.GROUP_STATUS_FALLEN) {
			c.dkg = nil
		}
	}
	e2 := fx.Try(func() error { return bandtss.EndBlocker(c.ctx, bk) })
	if e2 != "" {
		c.tr.Op(fx.M{"op": "bandtssEnd", "now": fx.I(c.now), "out": fx.M{"panic": true, "err": e2}})
	} else {
		c.emit(fx.M{"op": "bandtssEnd", "now": fx.I(c.now)}, "", false)
	}
	c.height++
	c.now += int64(c.r.PickInt(1, 1, 2, 5)) * 1_000_000_000
	c.setClock()
	for _, g := range c.groups {
		c.supplyDEs(g)
	}
}

// signSid: the assigned members of one WAITING signing submit their real partial signatures
func (c *caseT) signSid(s uint64, skipOne bool) {
	tk := c.app.TSSKeeper
	sg, err := tk.GetSigning(c.ctx, tss.SigningID(s))
	if err != nil || sg.Status != tsstypes.SIGNING_STATUS_WAITING {
		return
	}
	g, ok := c.groups[sg.GroupID]
	if !ok {
		return
	}
	sa, err := tk.GetSigningAttempt(c.ctx, sg.ID, sg.CurrentAttempt)
	if err != nil {
		return
	}
	for i, am := range sa.AssignedMembers {
		if skipOne && i == 0 {
			continue
		}
		if tk.HasPartialSignature(c.ctx, sg.ID, sg.CurrentAttempt, am.MemberID) {
			continue
		}
		sig, err := g.Sign(c.ctx, tk, sg.ID, am.MemberID)
		if err != nil {
			continue
		}
		msg := tsstypes.NewMsgSubmitSignature(sg.ID, am.MemberID, sig, am.Address)
		fx.Atomically(c.ctx, func(ctx sdk.Context) error { _, err := c.tms.SubmitSignature(ctx, msg); return err })
	}
}

// signSome: assigned members of WAITING signings submit their real partial signatures (all, or a subset)
func (c *caseT) signSome() {
	for s := uint64(1); s <= c.app.TSSKeeper.GetSigningCount(c.ctx); s++ {
		c.signSid(s, c.r.Chance(1, 3))
	}
}

// staleScenario: the hand-over signing of a transition that was dropped at its execution time is completed
// LATER, while the next transition is waiting for ITS hand-over signature (long signing period).
func (c *caseT) staleScenario() {
	bk, tk := c.app.BandtssKeeper, c.app.TSSKeeper
	toWaitingSign := func() (uint64, bool) {
		for i := 0; i < 6; i++ {
			if _, ok := bk.GetGroupTransition(c.ctx); ok {
				break
			}
			c.propose()
		}
		for i := 0; i < 14; i++ {
			tr, ok := bk.GetGroupTransition(c.ctx)
			if !ok {
				return 0, false
			}
			if tr.Status == bandtsstypes.TRANSITION_STATUS_WAITING_SIGN {
				return uint64(tr.SigningID), true
			}
			if c.dkg != nil && c.dkg.Round < 3 {
				if err := c.dkg.Send(c.ctx, tk); err != nil {
					c.tr.Tag("dkg-send-error")
				}
			}
			c.endBlock()
		}
		return 0, false
	}
	s1, ok := toWaitingSign()
	if !ok {
		return
	}
	for i := 0; i < 90; i++ { // nobody signs: dropped at its execution time
		if _, ok := bk.GetGroupTransition(c.ctx); !ok {
			break
		}
		c.endBlock()
	}
	if _, ok := bk.GetGroupTransition(c.ctx); ok {
		return
	}
	if _, ok := toWaitingSign(); !ok {
		return
	}
	c.tr.Tag("stale-handover-signed-late")
	c.signSid(s1, false)
	for i := 0; i < 90; i++ {
		c.endBlock()
		if _, ok := bk.GetGroupTransition(c.ctx); !ok {
			break
		}
	}
}

func (c *caseT) request() {
	tk, bk := c.app.TSSKeeper, c.app.BandtssKeeper
	before := tk.GetSigningCount(c.ctx)
	bal0 := c.app.BankKeeper.GetBalance(c.ctx, c.req.Address, "uband").Amount
	cost := int64(0)
	if cur := bk.GetCurrentGroup(c.ctx).GroupID; cur != 0 {
		g, _ := tk.GetGroup(c.ctx, cur)
		cost = c.fee * int64(g.Threshold)
	}
	content := tsstypes.NewTextSignatureOrder([]byte(hex.EncodeToString(c.r.Bytes(2))))
	msg, err := bandtsstypes.NewMsgRequestSignature(content, sdk.NewCoins(sdk.NewInt64Coin("uband", cost+int64(c.r.PickInt(0, 0, 5)))), c.req.Address.String())
	fx.Must(err)
	e := fx.Try(msg.ValidateBasic)
	if e != "" {
		return
	}
	e = fx.Atomically(c.ctx, func(ctx sdk.Context) error { _, err := c.bms.RequestSignature(ctx, msg); return err })
	bal1 := c.app.BankKeeper.GetBalance(c.ctx, c.req.Address, "uband").Amount
	obs := fx.M{"currentSid": 0, "incomingSid": 0, "incomingGroupOfSid": 0, "paid": bal0.Sub(bal1).Int64()}
	if e == "" {
		bs := bk.MustGetSigning(c.ctx, bandtsstypes.SigningID(bk.GetSigningCount(c.ctx)))
		obs["currentSid"] = uint64(bs.CurrentGroupSigningID)
		obs["incomingSid"] = uint64(bs.IncomingGroupSigningID)
		if bs.IncomingGroupSigningID != 0 {
			sg, _ := tk.GetSigning(c.ctx, bs.IncomingGroupSigningID)
			obs["incomingGroupOfSid"] = uint64(sg.GroupID)
		}
	}
	_ = before
	c.emit(fx.M{"op": "request", "cost": cost, "obs": obs}, e, true)
}

func runCase(app *fx.App, tr *fx.Trace, r *fx.Rng, caseNo int) {
	ctx, _ := app.Ctx.CacheContext()
	c := &caseT{app: app, ctx: ctx, tr: tr, r: r, bms: bandtsskeeper.NewMsgServerImpl(app.BandtssKeeper), tms: tsskeeper.NewMsgServerImpl(app.TSSKeeper),
		addrIdx: map[string]int{}, groups: map[tss.GroupID]*tssfx.Group{}, seed: int64(caseNo) * 1000, req: bandtesting.Bob}
	c.height = int64(r.Range(10, 20))
	c.now = 1_700_000_000_000_000_000
	c.setClock()
	c.minDur = int64(r.PickInt(1, 5, 10)) * 1_000_000_000
	c.maxDur = c.minDur + int64(r.PickInt(0, 10, 60))*1_000_000_000
	stale := r.Chance(1, 6)
	if stale {
		c.maxDur = c.minDur + 10_000_000_000
	}
	c.fee = int64(r.PickInt(0, 10))
	bp := app.BandtssKeeper.GetParams(c.ctx)
	bp.MinTransitionDuration, bp.MaxTransitionDuration = time.Duration(c.minDur), time.Duration(c.maxDur)
	bp.FeePerSigner = sdk.NewCoins()
	if c.fee > 0 {
		bp.FeePerSigner = sdk.NewCoins(sdk.NewInt64Coin("uband", c.fee))
	}
	fx.Must(app.BandtssKeeper.SetParams(c.ctx, bp))
	tp := app.TSSKeeper.GetParams(c.ctx)
	tp.SigningPeriod, tp.MaxSigningAttempt, tp.CreationPeriod, tp.MaxDESize = uint64(r.PickInt(1, 2)), uint64(r.PickInt(1, 2)), uint64(r.PickInt(2, 4, 8)), 20
	if stale { // signings stay open for the whole case
		tp.SigningPeriod, tp.MaxSigningAttempt = 500, 1
	}
	fx.Must(app.TSSKeeper.SetParams(c.ctx, tp))
	app.Fund(c.ctx, c.req.Address, "uband", sdkmath.NewInt(1_000_000))
	tr.Reset(fx.M{"minDur": fx.I(c.minDur), "maxDur": fx.I(c.maxDur)})
	// an optional current group and an optional spare ACTIVE group (for forced transitions)
	hasCurrent := r.Chance(4, 5)
	if hasCurrent {
		c.seed++
		g, err := tssfx.NewGroupWith(app, c.ctx, tssfx.NewAccounts(c.seed, r.Range(2, 3)), uint64(r.Range(1, 2)), bandtsstypes.ModuleName)
		fx.Must(err)
		c.registerGroup(g, true)
		c.supplyDEs(g)
	}
	if r.Chance(1, 2) || !hasCurrent {
		c.seed++
		g, err := tssfx.NewGroupWith(app, c.ctx, tssfx.NewAccounts(c.seed, 2), uint64(r.Range(1, 2)), bandtsstypes.ModuleName)
		fx.Must(err)
		c.registerGroup(g, false)
		if r.Chance(2, 3) && (hasCurrent || r.Chance(1, 2)) {
			c.supplyDEs(g)
		} else {
			c.tr.Tag("spare-group-without-nonces") // a request put to it cannot be assigned
		}
	}
	if stale {
		c.staleScenario()
	}
	n := r.Range(15, 60)
	for i := 0; i < n; i++ {
		// state-directed scheduling so that every stage of a transition is reached
		tr, hasTr := app.BandtssKeeper.GetGroupTransition(c.ctx)
		switch {
		case hasTr && tr.Status == bandtsstypes.TRANSITION_STATUS_CREATING_GROUP && c.dkg != nil && c.dkg.Round < 3 && r.Chance(3, 5):
			if err := c.dkg.Send(c.ctx, app.TSSKeeper); err != nil {
				c.tr.Tag("dkg-send-error")
			}
			if r.Chance(2, 3) {
				c.endBlock()
			}
			continue
		case hasTr && tr.Status == bandtsstypes.TRANSITION_STATUS_WAITING_SIGN && r.Chance(3, 5):
			c.signSome()
			if r.Chance(1, 2) {
				c.endBlock()
			}
			continue
		case hasTr && tr.Status == bandtsstypes.TRANSITION_STATUS_WAITING_EXECUTION && r.Chance(1, 2):
			if r.Chance(1, 2) || app.BandtssKeeper.GetCurrentGroup(c.ctx).GroupID == 0 {
				c.request()
				c.signSome()
			}
			c.endBlock()
			continue
		}
		switch x := r.Intn(20); {
		case x < 4:
			c.propose()
		case x < 6 || x < 12 && app.BandtssKeeper.GetCurrentGroup(c.ctx).GroupID == 0:
			c.force()
		case x < 8:
			if c.dkg != nil && c.dkg.Round < 3 {
				if err := c.dkg.Send(c.ctx, app.TSSKeeper); err != nil {
					c.tr.Tag("dkg-send-error")
				}
			}
		case x < 11:
			c.signSome()
		case x < 13:
			c.request()
		default:
			c.endBlock()
		}
	}
	for i := 0; i < 3; i++ {
		c.endBlock()
	}
}

func main() {
	a := fx.ParseArgs()
	app := fx.NewApp()
	defer app.Close()
	tr := fx.NewTrace(a.Out)
	n := a.Cases
	if n == 0 {
		n = 40
	}
	r := fx.NewRng(a.Seed)
	for i := 0; i < n; i++ {
		runCase(app, tr, r.Fork(), i)
	}
	tr.Close()
	tr.WriteStats(a.Stats, nil)
}
