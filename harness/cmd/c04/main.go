// c04 plays distributed key generation against the REAL x/tss msg server and group end-blocker.  Members are
// played by pkg/tss (round 1, round 2) and by the cylinder daemon's real round-3 share handling
// (cylinder/workers/group.getOwnPrivKey through the verif hook); the generator injects deviations: wrong-length
// commitments, tampered signatures, corrupted encrypted share to a recipient, false complaints, wrong key-sym,
// tampered complaint signature, replays, out-of-round and non-member submissions, missing submissions + expiry.
// Each line carries what the Lean driver needs to recompute every check with its own curve code.
package main

import (
	"github.com/decred/dcrd/dcrec/secp256k1/v4"

	"encoding/hex"

	sdk "github.com/cosmos/cosmos-sdk/types"

	cylclient "github.com/bandprotocol/chain/v3/cylinder/client"
	cylstore "github.com/bandprotocol/chain/v3/cylinder/store"
	cylgroup "github.com/bandprotocol/chain/v3/cylinder/workers/group"
	"github.com/bandprotocol/chain/v3/pkg/tss"
	bandtesting "github.com/bandprotocol/chain/v3/testing"
	tssmod "github.com/bandprotocol/chain/v3/x/tss"
	tsskeeper "github.com/bandprotocol/chain/v3/x/tss/keeper"
	tsstypes "github.com/bandprotocol/chain/v3/x/tss/types"

	"verifharness/internal/fx"
	"verifharness/internal/tssfx"
)

func hx(b []byte) string { return hex.EncodeToString(b) }

type member struct {
	id      tss.MemberID
	acct    bandtesting.Account
	r1      *tss.Round1Info
	honest  bool // follows the protocol in every round
	r1Sent  bool
	r2Sent  bool
	r3Sent  bool
	corrupt map[tss.MemberID]bool // recipients to which this dealer sends a corrupted share
}

type caseT struct {
	app     *fx.App
	ctx     sdk.Context
	tr      *fx.Trace
	r       *fx.Rng
	tms     tsstypes.MsgServer
	qs      tsstypes.QueryServer
	gid     tss.GroupID
	n, t    uint64
	ms      []*member
	dkgCtx  []byte
	height  int64
	period  uint64
	outside bandtesting.Account
}

func (c *caseT) dump() fx.M {
	tk := c.app.TSSKeeper
	g, err := tk.GetGroup(c.ctx, c.gid)
	fx.Must(err)
	var mem []any
	for i := uint64(1); i <= c.n; i++ {
		m, err := tk.GetMember(c.ctx, c.gid, tss.MemberID(i))
		fx.Must(err)
		mem = append(mem, []any{m.IsMalicious, hx(m.PubKey)})
	}
	return fx.M{"status": int(g.Status), "pubKey": hx(g.PubKey), "members": mem, "pending": len(tk.GetPendingProcessGroups(c.ctx))}
}

// pendingMembers: the members for which the PendingGroups query (what a member's daemon asks when it starts) lists this group
func (c *caseT) pendingMembers() []uint64 {
	out := []uint64{}
	for _, m := range c.ms {
		res, err := c.qs.PendingGroups(c.ctx, &tsstypes.QueryPendingGroupsRequest{Address: m.acct.Address.String()})
		if err != nil {
			continue
		}
		for _, g := range res.PendingGroups {
			if g == uint64(c.gid) {
				out = append(out, uint64(m.id))
			}
		}
	}
	return out
}

func (c *caseT) emit(m fx.M, errS string) {
	out := c.dump()
	out["err"] = errS
	m["out"] = out
	m["obs"] = fx.M{"pending": c.pendingMembers()}
	c.tr.Op(m)
}

// who sends: the member itself, another member's address, or an account outside the group
func (c *caseT) senderFor(m *member) (string, string) {
	switch c.r.Intn(14) {
	case 0:
		o := c.ms[(int(m.id))%len(c.ms)]
		if o.id != m.id {
			return o.acct.Address.String(), "wrong"
		}
	case 1:
		return c.outside.Address.String(), "wrong"
	}
	return m.acct.Address.String(), "ok"
}

func sigOut(s tss.Signature) []string { return []string{hx(s.R()), hx(s.S())} }

func (c *caseT) round1(m *member) {
	r := c.r
	info := tsstypes.Round1Info{MemberID: m.id, CoefficientCommits: append(tss.Points{}, m.r1.CoefficientCommits...), OneTimePubKey: m.r1.OneTimePubKey,
		A0Signature: m.r1.A0Signature, OneTimeSignature: m.r1.OneTimeSignature}
	dev := ""
	if !m.honest && r.Chance(1, 2) {
		switch r.Intn(6) {
		case 5:
			// the one-time key registered in its uncompressed SEC1 encoding, with a one-time signature made over exactly those
			// bytes: the chain accepts it; everybody who later proves something about this key must hash the REGISTERED bytes
			if pk, err := secp256k1.ParsePubKey(m.r1.OneTimePubKey); err == nil && !m.r1Sent {
				ku := tss.Point(pk.SerializeUncompressed())
				if sig, err := tss.SignOneTime(m.id, c.dkgCtx, ku, m.r1.OneTimePrivKey); err == nil {
					m.r1.OneTimePubKey = ku
					m.r1.OneTimeSignature = sig
					info.OneTimePubKey, info.OneTimeSignature = ku, sig
					dev = "uncompressed-onetime-key"
				}
			}
		case 0:
			info.CoefficientCommits = info.CoefficientCommits[:len(info.CoefficientCommits)-1]
			dev = "short-commits"
		case 1:
			info.CoefficientCommits = append(info.CoefficientCommits, m.r1.OneTimePubKey)
			dev = "long-commits"
		case 2:
			info.A0Signature = append(tss.Signature{}, m.r1.OneTimeSignature...)
			dev = "a0-sig-swapped"
		case 3:
			info.OneTimeSignature = append(tss.Signature{}, m.r1.A0Signature...)
			dev = "onetime-sig-swapped"
		case 4:
			info.MemberID = tss.MemberID(uint64(m.id)%c.n + 1) // signatures bound to another member id
			dev = "other-member-id"
		}
		c.tr.Tag("dev-r1-" + dev)
	}
	sender, who := c.senderFor(m)
	if c.ms[info.MemberID-1].acct.Address.String() == sender {
		who = "ok"
	} else {
		who = "wrong"
	}
	msg := tsstypes.NewMsgSubmitDKGRound1(c.gid, info, sender)
	e := fx.Try(msg.ValidateBasic)
	if e == "" {
		e = fx.Atomically(c.ctx, func(ctx sdk.Context) error { _, err := c.tms.SubmitDKGRound1(ctx, msg); return err })
	} else {
		return // rejected before reaching the chain logic
	}
	var commits []string
	for _, p := range info.CoefficientCommits {
		commits = append(commits, hx(p))
	}
	var coeffs []string
	for _, s := range m.r1.Coefficients {
		coeffs = append(coeffs, hx(s))
	}
	if e == "" && info.MemberID == m.id {
		m.r1Sent = true
	}
	c.emit(fx.M{"op": "r1", "mid": uint64(info.MemberID), "sender": who, "commits": commits, "oneTimePub": hx(info.OneTimePubKey),
		"oneTimeSig": sigOut(info.OneTimeSignature), "a0Sig": sigOut(info.A0Signature), "truthCoeffs": coeffs, "dealer": uint64(m.id)}, e)
}

func (c *caseT) round2(m *member) {
	r := c.r
	var pubs tss.Points
	for _, o := range c.ms {
		pubs = append(pubs, o.r1.OneTimePubKey)
	}
	enc, err := tss.ComputeEncryptedSecretShares(m.id, m.r1.OneTimePrivKey, pubs, m.r1.Coefficients, tss.DefaultNonce16Generator{})
	fx.Must(err)
	dev := ""
	malformed := []int{}
	if !m.honest && len(enc) > 0 && r.Chance(1, 2) {
		switch r.Intn(5) {
		case 4: // a well-formed ciphertext whose plaintext is not a scalar of the group (all ones): the recipient's complaint must be upheld
			k := r.Intn(len(enc))
			rid := tss.MemberID(k + 1)
			if rid >= m.id {
				rid++
			}
			ks, err := tss.ComputeSecretSym(m.r1.OneTimePrivKey, pubs[int(rid)-1])
			fx.Must(err)
			bad := make([]byte, 32)
			for i := range bad {
				bad[i] = 0xff
			}
			if r.Bool() {
				bad = make([]byte, 32) // zero
			}
			e2, err := tss.Encrypt(tss.Scalar(bad), ks, tss.DefaultNonce16Generator{})
			fx.Must(err)
			enc[k] = e2
			m.corrupt[rid] = true
			dev = "out-of-range-share"
		case 3: // a share that is not 48 bytes, at any position (message validation must reject the whole submission)
			k := r.Intn(len(enc))
			enc[k] = tss.EncSecretShare(r.Bytes(r.PickInt(0, 1, 47, 49, 96)))
			malformed = append(malformed, k)
			dev = "malformed-share"
		case 0, 1: // corrupt the share of one recipient
			k := r.Intn(len(enc))
			e2 := append(tss.EncSecretShare{}, enc[k]...)
			e2[r.Intn(32)] ^= byte(1 + r.Intn(255))
			enc[k] = e2
			rid := tss.MemberID(k + 1)
			if rid >= m.id {
				rid++
			}
			m.corrupt[rid] = true
			dev = "corrupt-share"
		case 2:
			enc = enc[:len(enc)-1]
			dev = "short-shares"
		}
		c.tr.Tag("dev-r2-" + dev)
	}
	info := tsstypes.Round2Info{MemberID: m.id, EncryptedSecretShares: enc}
	sender, who := c.senderFor(m)
	msg := tsstypes.NewMsgSubmitDKGRound2(c.gid, info, sender)
	e := fx.Try(msg.ValidateBasic)
	if e == "" {
		e = fx.Atomically(c.ctx, func(ctx sdk.Context) error { _, err := c.tms.SubmitDKGRound2(ctx, msg); return err })
	} else {
		return
	}
	// truth for the driver: what each recipient obtains with the TRUE symmetric key
	var truth []any
	for _, o := range c.ms {
		if o.id == m.id {
			continue
		}
		slot := tsstypes.FindMemberSlot(m.id, o.id)
		if int(slot) >= len(enc) {
			continue
		}
		ks, err := tss.ComputeSecretSym(o.r1.OneTimePrivKey, m.r1.OneTimePubKey)
		fx.Must(err)
		sh, err := tss.DecryptSecretShare(enc[slot], ks)
		if err != nil {
			continue // a share that decrypts to nothing (malformed, or refused by the decryption routine)
		}
		truth = append(truth, []any{uint64(o.id), uint64(slot), hx(sh)})
	}
	if e == "" {
		m.r2Sent = true
	}
	c.emit(fx.M{"op": "r2", "mid": uint64(m.id), "sender": who, "sharesLen": len(enc), "truthShares": truth, "malformedSlots": malformed}, e)
}

func (c *caseT) groupResult() *cylclient.GroupResult {
	res, err := c.qs.Group(c.ctx, &tsstypes.QueryGroupRequest{GroupId: uint64(c.gid)})
	fx.Must(err)
	return cylclient.NewGroupResult(res)
}

func (c *caseT) complaintOut(cp tsstypes.Complaint) fx.M {
	gr := c.groupResult()
	enc, err := gr.GetEncryptedSecretShare(cp.Respondent, cp.Complainant)
	dec := ""
	if err == nil {
		// the symmetric key is a curve point: the specification decrypts under the point, i.e. under its canonical
		// (compressed) encoding, whatever encoding the complaint carries
		ks := cp.KeySym
		if pk, e := secp256k1.ParsePubKey(ks); e == nil {
			ks = tss.Point(pk.SerializeCompressed())
		}
		if sh, err := tss.DecryptSecretShare(enc, ks); err == nil {
			dec = hx(sh)
		}
	}
	return fx.M{"complainant": uint64(cp.Complainant), "respondent": uint64(cp.Respondent), "keySym": hx(cp.KeySym),
		"a1": hx(cp.Signature.A1()), "a2": hx(cp.Signature.A2()), "z": hx(cp.Signature.Z()), "decrypted": dec}
}

func (c *caseT) round3(m *member) {
	r := c.r
	gr := c.groupResult()
	priv, complaints, err := cylgroup.GetOwnPrivKeyForVerif(cylstore.DKG{GroupID: c.gid, MemberID: m.id, Coefficients: m.r1.Coefficients, OneTimePrivKey: m.r1.OneTimePrivKey}, gr)
	if err != nil {
		// the member's client could not work out its key (a share it cannot even decrypt): following the protocol it
		// complains about every dealer whose share it cannot decrypt — the complaint needs only the symmetric key and its proof
		c.tr.Tag("client-error")
		complaints = nil
		for _, o := range c.ms {
			if o.id == m.id {
				continue
			}
			enc, e1 := gr.GetEncryptedSecretShare(o.id, m.id)
			if e1 != nil {
				continue
			}
			ks, e2 := tss.ComputeSecretSym(m.r1.OneTimePrivKey, o.r1.OneTimePubKey)
			fx.Must(e2)
			if _, e3 := tss.DecryptSecretShare(enc, ks); e3 != nil {
				sig, keySym, e4 := tss.SignComplaint(m.r1.OneTimePubKey, o.r1.OneTimePubKey, m.r1.OneTimePrivKey)
				fx.Must(e4)
				complaints = append(complaints, tsstypes.Complaint{Complainant: m.id, Respondent: o.id, KeySym: keySym, Signature: sig})
			}
		}
		if len(complaints) == 0 {
			return
		}
	}
	sender, who := c.senderFor(m)
	// deviations of a dishonest member in round 3
	if !m.honest && r.Chance(1, 2) && c.n > 1 {
		o := c.ms[(int(m.id))%len(c.ms)] // some other member
		sig, keySym, err := tss.SignComplaint(m.r1.OneTimePubKey, o.r1.OneTimePubKey, m.r1.OneTimePrivKey)
		fx.Must(err)
		dev := ""
		foreign := false
		switch r.Intn(6) {
		case 5: // the TRUE symmetric key in a non-canonical encoding (uncompressed or hybrid SEC1), with a proof that is valid for
			// exactly those bytes: the same curve point, so both proof relations hold
			pk, e0 := secp256k1.ParsePubKey(keySym)
			fx.Must(e0)
			ku := tss.Point(pk.SerializeUncompressed())
			if r.Chance(1, 3) {
				ku[0] = 6 + ku[64]&1 // hybrid form
			}
			for {
				nonce, pubNonce, e1 := tss.GenerateDKGNonce()
				fx.Must(e1)
				nonceSym, e2 := tss.ComputeSecretSym(nonce, o.r1.OneTimePubKey)
				fx.Must(e2)
				ch, e3 := tss.HashRound3Complain(pubNonce, nonceSym, m.r1.OneTimePubKey, o.r1.OneTimePubKey, ku)
				if e3 != nil {
					continue
				}
				sg, e4 := tss.Sign(m.r1.OneTimePrivKey, ch, nonce, nil)
				fx.Must(e4)
				sig, err = tss.NewComplaintSignatureFromComponents(sg.R(), nonceSym, sg.S())
				fx.Must(err)
				break
			}
			keySym = ku
			dev = "noncanonical-keysym"
		case 4: // a proof made with a key the complainant does not own: it ties the "symmetric key" to the respondent's one-time key
			// only, not to the complainant's (the second of the two relations holds, the first does not)
			kp := tss.Scalar(append([]byte{1}, r.Bytes(31)...))
			sig, keySym, err = tss.SignComplaint(m.r1.OneTimePubKey, o.r1.OneTimePubKey, kp)
			fx.Must(err)
			dev = "forged-keysym-proof"
		case 3: // a second complaint in ANOTHER (honest) member's name appended to the message: ValidateBasic must reject it
			dev = "foreign-complainant"
			foreign = true
		case 0: // false complaint: valid signature, true key, (possibly) valid share
			dev = "false-complaint"
		case 1: // wrong key-sym
			keySym = o.r1.OneTimePubKey
			dev = "wrong-keysym"
		case 2: // tampered signature
			s2 := append(tss.ComplaintSignature{}, sig...)
			s2[len(s2)-1] ^= 1
			sig = s2
			dev = "tampered-complaint-sig"
		}
		c.tr.Tag("dev-r3-" + dev)
		cp := tsstypes.Complaint{Complainant: m.id, Respondent: o.id, KeySym: keySym, Signature: sig}
		cps := []tsstypes.Complaint{cp}
		if foreign {
			// the framed member: someone else than the sender and the respondent, if there is one
			for _, x := range c.ms {
				if x.id != m.id && x.id != o.id {
					cps = append(cps, tsstypes.Complaint{Complainant: x.id, Respondent: o.id, KeySym: keySym, Signature: sig})
					break
				}
			}
		}
		msg := tsstypes.NewMsgComplain(c.gid, cps, sender)
		e := fx.Try(msg.ValidateBasic)
		if e != "" {
			return
		}
		cout := []any{}
		for _, x := range cps {
			cout = append(cout, c.complaintOut(x))
		}
		e = fx.Atomically(c.ctx, func(ctx sdk.Context) error { _, err := c.tms.Complain(ctx, msg); return err })
		if e == "" {
			m.r3Sent = true
		}
		c.emit(fx.M{"op": "complain", "mid": uint64(m.id), "sender": who, "complaints": cout, "honest": false}, e)
		return
	}
	if len(complaints) > 0 {
		msg := tsstypes.NewMsgComplain(c.gid, complaints, sender)
		fx.Must(msg.ValidateBasic())
		var cout []any
		for _, cp := range complaints {
			cout = append(cout, c.complaintOut(cp))
		}
		e := fx.Atomically(c.ctx, func(ctx sdk.Context) error { _, err := c.tms.Complain(ctx, msg); return err })
		if e == "" {
			m.r3Sent = true
		}
		c.emit(fx.M{"op": "complain", "mid": uint64(m.id), "sender": who, "complaints": cout, "honest": m.honest}, e)
		return
	}
	sig, err := tss.SignOwnPubKey(m.id, c.dkgCtx, priv.Point(), priv)
	fx.Must(err)
	dev := ""
	if !m.honest && r.Chance(1, 3) {
		s2 := append(tss.Signature{}, sig...)
		s2[len(s2)-1] ^= 1
		sig = s2
		dev = "tampered-confirm-sig"
		c.tr.Tag("dev-r3-" + dev)
	}
	msg := tsstypes.NewMsgConfirm(c.gid, m.id, sig, sender)
	e := fx.Try(msg.ValidateBasic)
	if e != "" {
		return
	}
	e = fx.Atomically(c.ctx, func(ctx sdk.Context) error { _, err := c.tms.Confirm(ctx, msg); return err })
	if e == "" {
		m.r3Sent = true
	}
	c.emit(fx.M{"op": "confirm", "mid": uint64(m.id), "sender": who, "sig": sigOut(sig), "ownPriv": hx(priv)}, e)
}

func (c *caseT) endBlock() {
	c.height++
	c.ctx = c.ctx.WithBlockHeight(c.height)
	g, _ := c.app.TSSKeeper.GetGroup(c.ctx, c.gid)
	// HandleExpiredGroups walks groups in id order and stops at the first one not yet due
	reachable := true
	for id := c.app.TSSKeeper.GetLastExpiredGroupID(c.ctx) + 1; id < c.gid; id++ {
		if og, err := c.app.TSSKeeper.GetGroup(c.ctx, id); err != nil || og.CreatedHeight+c.period > uint64(c.height) {
			reachable = false // an older group is not due yet: the walk stops before this group
		}
	}
	e := fx.Try(func() error { return tssmod.EndBlocker(c.ctx, c.app.TSSKeeper) })
	if e != "" {
		c.tr.Op(fx.M{"op": "endBlock", "height": c.height, "out": fx.M{"panic": true, "err": e}})
		return
	}
	_ = g
	c.emit(fx.M{"op": "endBlock", "height": c.height, "period": c.period, "reachable": reachable}, "")
}

func runCase(app *fx.App, tr *fx.Trace, r *fx.Rng, caseNo int) {
	ctx, _ := app.Ctx.CacheContext()
	c := &caseT{app: app, ctx: ctx, tr: tr, r: r, tms: tsskeeper.NewMsgServerImpl(app.TSSKeeper), qs: tsskeeper.NewQueryServer(app.TSSKeeper), outside: bandtesting.Alice}
	c.height = int64(r.Range(5, 50))
	c.ctx = c.ctx.WithBlockHeight(c.height)
	c.n = uint64(r.PickInt(1, 2, 3, 3, 4, 5))
	c.t = uint64(r.Range(1, int(c.n)))
	tp := app.TSSKeeper.GetParams(c.ctx)
	c.period = uint64(r.PickInt(3, 6, 30, 30, 100))
	tp.CreationPeriod = c.period
	fx.Must(app.TSSKeeper.SetParams(c.ctx, tp))
	// sometimes an OLDER group of other members sits in the same store, never gets a message and expires while this group is
	// in its complaint round (1 to 3 blocks before this group would): its clean-up (HandleExpiredGroups →
	// DeleteAllDKGInterimData) must not touch this group's round data
	decoyExpiry := int64(0)
	if r.Chance(1, 2) {
		dh := c.height - int64(r.Range(1, 3))
		if dh >= 1 {
			var daddrs []sdk.AccAddress
			for _, a := range tssfx.NewAccounts(int64(caseNo)*13+5, 2) {
				daddrs = append(daddrs, a.Address)
			}
			_, err := app.TSSKeeper.CreateGroup(c.ctx.WithBlockHeight(dh), daddrs, 1, "verif")
			fx.Must(err)
			decoyExpiry = dh + int64(c.period)
			tr.Tag("older-group-expires-during-case")
		}
	}
	accts := tssfx.NewAccounts(int64(caseNo)*13+7, int(c.n))
	var addrs []sdk.AccAddress
	for _, a := range accts {
		addrs = append(addrs, a.Address)
	}
	gid, err := app.TSSKeeper.CreateGroup(c.ctx, addrs, c.t, "verif")
	fx.Must(err)
	c.gid = gid
	c.dkgCtx, err = app.TSSKeeper.GetDKGContext(c.ctx, gid)
	fx.Must(err)
	allHonest := r.Chance(1, 3)
	for i, a := range accts {
		m := &member{id: tss.MemberID(i + 1), acct: a, honest: allHonest || r.Chance(2, 3), corrupt: map[tss.MemberID]bool{}}
		m.r1, err = tss.GenerateRound1Info(m.id, c.t, c.dkgCtx)
		fx.Must(err)
		c.ms = append(c.ms, m)
	}
	var hon []bool
	for _, m := range c.ms {
		hon = append(hon, m.honest)
	}
	tr.Reset(fx.M{"n": c.n, "t": c.t, "dkgContext": hx(c.dkgCtx), "createdHeight": c.height, "honest": hon, "gid": uint64(gid),
		"lastExpired": uint64(app.TSSKeeper.GetLastExpiredGroupID(c.ctx))})
	lazy := r.Chance(1, 6) // somebody never submits in some round -> expiry
	steps := r.Range(20, 90)
	for s := 0; s < steps; s++ {
		g, _ := app.TSSKeeper.GetGroup(c.ctx, gid)
		m := c.ms[r.Intn(len(c.ms))]
		if decoyExpiry > 0 && (g.Status == tsstypes.GROUP_STATUS_ROUND_3 || g.Status == tsstypes.GROUP_STATUS_ROUND_2 && r.Chance(1, 6)) && c.height < decoyExpiry && r.Chance(1, 2) {
			// time passes until the older group is due
			c.height = decoyExpiry - 1
			c.endBlock()
			decoyExpiry = 0
			continue
		}
		if len(app.TSSKeeper.GetPendingProcessGroups(c.ctx)) > 0 && r.Chance(2, 3) || r.Chance(1, 12) {
			c.endBlock()
			continue
		}
		// mostly the message of the current round, sometimes one of another round (out of round / replay)
		round := int(g.Status)
		if r.Chance(1, 10) {
			round = r.Range(1, 3)
		}
		if lazy && m.id == 1 && r.Chance(9, 10) {
			continue
		}
		switch round {
		case int(tsstypes.GROUP_STATUS_ROUND_1):
			if !m.r1Sent || r.Chance(1, 8) {
				c.round1(m)
			}
		case int(tsstypes.GROUP_STATUS_ROUND_2):
			if g.Status != tsstypes.GROUP_STATUS_ROUND_1 && (!m.r2Sent || r.Chance(1, 8)) {
				c.round2(m)
			}
		case int(tsstypes.GROUP_STATUS_ROUND_3):
			if g.Status == tsstypes.GROUP_STATUS_ROUND_3 && (!m.r3Sent || r.Chance(1, 8)) {
				c.round3(m)
			}
		default:
			if r.Chance(1, 15) {
				c.round1(m)
			}
		}
	}
	for i := 0; i < 3; i++ {
		c.endBlock()
	}
}

func main() {
	a := fx.ParseArgs()
	app := fx.NewApp()
	defer app.Close()
	tr := fx.NewTrace(a.Out)
	n := a.Cases
	if n == 0 {
		n = 60
	}
	r := fx.NewRng(a.Seed)
	for i := 0; i < n; i++ {
		runCase(app, tr, r.Fork(), i)
	}
	tr.Close()
	tr.WriteStats(a.Stats, nil)
}
