// c01: correspondence harness for C01 (oracle request life cycle) — the real oracle msg server
// (RequestData / ReportData with ValidateBasic) and oracle.EndBlocker on the in-process app, with the
// repo's test wasm scripts; boundary schedulers for every race named by the property.
package main

import (
	"fmt"
	oraclemod "github.com/bandprotocol/chain/v3/x/oracle"
	clienttypes "github.com/cosmos/ibc-go/v8/modules/core/02-client/types"
	channeltypes "github.com/cosmos/ibc-go/v8/modules/core/04-channel/types"

	"bytes"
	"encoding/hex"
	"sort"
	"time"

	"github.com/bytecodealliance/wasmtime-go/v20"

	sdkmath "cosmossdk.io/math"

	sdk "github.com/cosmos/cosmos-sdk/types"

	bandtesting "github.com/bandprotocol/chain/v3/testing"
	"github.com/bandprotocol/chain/v3/x/oracle"
	oraclekeeper "github.com/bandprotocol/chain/v3/x/oracle/keeper"
	oracletypes "github.com/bandprotocol/chain/v3/x/oracle/types"

	"verifharness/internal/fx"
)

// two oracle scripts whose outcome is known from their text (one raw request on data source 1 in `prepare`):
// scriptEmpty's `execute` sets a zero-length answer (SUCCESS with an empty result), scriptNone's never sets one (FAILURE)
const watHead = `
(module
	(type $t0 (func))
	(type $t1 (func (param i64 i64 i64 i64)))
	(type $t2 (func (param i64 i64)))
	(type $t3 (func (result i64)))
	(type $t4 (func (param i64 i64) (result i64)))
	(import "env" "ask_external_data" (func $ask_external_data (type $t1)))
	(import "env" "set_return_data" (func $set_return_data (type $t2)))
	(import "env" "get_ask_count" (func $get_ask_count (type $t3)))
	(import "env" "get_external_data_status" (func $get_external_data_status (type $t4)))
	(func $prepare (export "prepare") (type $t0)
	  i64.const 1
	  i64.const 1
	  i32.const 1024
	  i64.extend_i32_u
	  i64.const 4
	  call $ask_external_data)
	(func $execute (export "execute") (type $t0)`
const watTail = `)
	(table $T0 1 1 funcref)
	(memory $memory (export "memory") 17)
	(data (i32.const 1024) "test"))
`
const watSetEmpty = `
	  i32.const 1024
	  i64.extend_i32_u
	  i64.const 0
	  call $set_return_data`
const watSetFour = `
	  i32.const 1024
	  i64.extend_i32_u
	  i64.const 4
	  call $set_return_data`

// asks for the report status of validator index ask_count (one past the last): the host answers with an error, the run fails
const watBadIndex = `
	  i64.const 1
	  call $get_ask_count
	  call $get_external_data_status
	  drop` + watSetFour

// known outcome (resolve status, result hex) per added script id
type known struct {
	status int
	result string
}

func (c *caseT) addScripts() {
	c.known = map[oracletypes.OracleScriptID]known{}
	for _, x := range []struct {
		body string
		k    known
	}{{watSetEmpty, known{int(oracletypes.RESOLVE_STATUS_SUCCESS), ""}}, {"", known{int(oracletypes.RESOLVE_STATUS_FAILURE), ""}},
		{watSetFour, known{int(oracletypes.RESOLVE_STATUS_SUCCESS), hex.EncodeToString([]byte("test"))}},
		{watBadIndex, known{int(oracletypes.RESOLVE_STATUS_FAILURE), ""}}} {
		wasm, err := wasmtime.Wat2Wasm(watHead + x.body + watTail)
		fx.Must(err)
		fn, err := c.app.OracleKeeper.AddOracleScriptFile(wasm)
		fx.Must(err)
		id := c.app.OracleKeeper.AddOracleScript(c.ctx, oracletypes.NewOracleScript(bandtesting.Owner.Address, "known", "known outcome", fn, "schema", "url"))
		c.known[id] = x.k
		c.knownIDs = append(c.knownIDs, int(id))
	}
}

type caseT struct {
	known    map[oracletypes.OracleScriptID]known
	knownIDs []int
	app      *fx.App
	ctx      sdk.Context
	tr       *fx.Trace
	r        *fx.Rng
	ms       oracletypes.MsgServer
	now      int64 // ns
	height   int64
	exp      int64
	pen      int64
}

func valIdx(s string) int {
	for i, v := range bandtesting.Validators {
		if v.ValAddress.String() == s {
			return i
		}
	}
	return -1
}

func (c *caseT) dump() fx.M {
	k := c.app.OracleKeeper
	cnt := k.GetRequestCount(c.ctx)
	reqs := [][]any{}
	for id := uint64(1); id <= cnt; id++ {
		rid := oracletypes.RequestID(id)
		_, err := k.GetRequest(c.ctx, rid)
		reps := []int{}
		for _, rp := range k.GetReports(c.ctx, rid) {
			reps = append(reps, valIdx(rp.Validator))
		}
		sort.Ints(reps)
		var res any
		if k.HasResult(c.ctx, rid) {
			r := k.MustGetResult(c.ctx, rid)
			res = []any{int(r.ResolveStatus), r.AnsCount, r.ResolveTime, r.AskCount, r.MinCount, r.RequestTime, r.ClientID,
				hex.EncodeToString(r.Calldata), hex.EncodeToString(r.Result)}
		}
		reqs = append(reqs, []any{err == nil, reps, res})
	}
	pend := []uint64{}
	for _, p := range k.GetPendingResolveList(c.ctx) {
		pend = append(pend, uint64(p))
	}
	vals := [][]any{}
	for _, v := range bandtesting.Validators {
		s := k.GetValidatorStatus(c.ctx, v.ValAddress)
		if s.Since.IsZero() {
			vals = append(vals, []any{s.IsActive, true, 0})
		} else {
			vals = append(vals, []any{s.IsActive, false, fx.I(s.Since.UnixNano())})
		}
	}
	return fx.M{"count": cnt, "lastExpired": uint64(k.GetRequestLastExpired(c.ctx)), "pending": pend, "reqs": reqs, "vals": vals}
}

func (c *caseT) setClock() {
	c.ctx = c.ctx.WithBlockHeight(c.height).WithBlockTime(time.Unix(0, c.now).UTC())
}

func (c *caseT) activate(i int) {
	_ = fx.Try(func() error { return c.app.OracleKeeper.Activate(c.ctx, bandtesting.Validators[i].ValAddress) })
	c.tr.Op(fx.M{"op": "activate", "val": i, "now": fx.I(c.now), "penalty": fx.I(c.pen), "out": c.dump()})
}

func (c *caseT) request() {
	r := c.r
	k := c.app.OracleKeeper
	script := oracletypes.OracleScriptID(r.PickInt(1, 1, 1, 4, 4, 6, 3, 9))
	if len(c.knownIDs) > 0 && r.Chance(1, 4) {
		script = oracletypes.OracleScriptID(c.knownIDs[r.Intn(len(c.knownIDs))])
	}
	ask := uint64(r.Range(1, 3))
	min := uint64(r.Range(1, int(ask)))
	calldata := []byte("beeb")
	if script == 4 {
		// Wasm4: obi{ids: Vec<i64>, calldata: String}: external ids 0..len-1 on the given data sources
		n := r.Range(1, 3)
		calldata = []byte{0, 0, 0, byte(n)}
		for i := 0; i < n; i++ {
			calldata = append(calldata, 0, 0, 0, 0, 0, 0, 0, byte(r.Range(1, 3)))
		}
		calldata = append(calldata, 0, 0, 0, 4, 'b', 'e', 'e', 'b')
	}
	execGas := bandtesting.TestDefaultExecuteGas
	if r.Chance(1, 4) {
		execGas = 1000 // the execute run exhausts its gas: FAILURE
	}
	client := r.PickStr("", "cid", "client-2")
	msg := oracletypes.NewMsgRequestData(script, calldata, ask, min, client, sdk.NewCoins(sdk.NewInt64Coin("uband", 1_000_000_000)),
		bandtesting.TestDefaultPrepareGas, execGas, bandtesting.FeePayer.Address, oracletypes.ENCODER_UNSPECIFIED)
	errS := ""
	if r.Chance(1, 5) {
		// the request arrives as an IBC packet (the oracle module's OnRecvPacket): the packet data has its own validation;
		// min_count is also tried at 0 and above ask_count
		minP := uint64(r.PickInt(0, 1, int(ask), int(ask), int(ask)+1))
		data := oracletypes.NewOracleRequestPacketData(client, script, calldata, ask, minP, oracletypes.ENCODER_UNSPECIFIED,
			sdk.NewCoins(sdk.NewInt64Coin("uband", 1_000_000_000)), bandtesting.TestDefaultPrepareGas, execGas)
		packet := channeltypes.NewPacket(data.GetBytes(), 1, "consumer", "channel-0", "oracle", "channel-7", clienttypes.NewHeight(0, 10_000_000), 0)
		errS = fx.Atomically(c.ctx, func(ctx sdk.Context) error {
			ack := oraclemod.NewIBCModule(k).OnRecvPacket(ctx, packet, bandtesting.FeePayer.Address)
			if !ack.Success() {
				return fmt.Errorf("ibc-error-ack")
			}
			return nil
		})
		c.tr.Tag("request-by-ibc-packet")
	} else {
		errS = fx.Try(msg.ValidateBasic)
		if errS == "" {
			errS = fx.Atomically(c.ctx, func(ctx sdk.Context) error { _, err := c.ms.RequestData(ctx, msg); return err })
		}
	}
	m := fx.M{"op": "request", "script": int(script)}
	if errS == "" {
		id := oracletypes.RequestID(k.GetRequestCount(c.ctx))
		rq := k.MustGetRequest(c.ctx, id)
		if rq.IBCChannel == nil && r.Chance(1, 6) {
			// the request came over IBC on a channel that can no longer carry the response (closed channel, expired client):
			// the result is stored all the same, only the packet is not sent
			rq.IBCChannel = &oracletypes.IBCChannel{PortId: "oracle", ChannelId: "channel-7"}
			k.SetRequest(c.ctx, id, rq)
			c.tr.Tag("ibc-request-without-usable-channel")
		}
		vals := []int{}
		for _, v := range rq.RequestedValidators {
			vals = append(vals, valIdx(v))
		}
		eids := []uint64{}
		for _, rr := range rq.RawRequests {
			eids = append(eids, uint64(rr.ExternalID))
		}
		if kn, ok := c.known[script]; ok && execGas == bandtesting.TestDefaultExecuteGas {
			// the outcome of running this script is known from its text: what the result must say once it is resolved
			m["expect"] = fx.M{"status": kn.status, "result": kn.result}
		}
		m["req"] = fx.M{"vals": vals, "minCount": rq.MinCount, "eids": eids, "height": rq.RequestHeight, "time": rq.RequestTime,
			"clientId": rq.ClientID, "calldata": hex.EncodeToString(rq.Calldata)}
	}
	out := c.dump()
	out["err"] = errS
	m["out"] = out
	c.tr.Op(m)
}

func (c *caseT) report() {
	r := c.r
	k := c.app.OracleKeeper
	cnt := k.GetRequestCount(c.ctx)
	if cnt == 0 {
		return
	}
	// mostly live requests, sometimes expired / unknown ids
	rid := oracletypes.RequestID(1 + r.Intn(int(cnt)))
	if r.Chance(1, 10) {
		rid = oracletypes.RequestID(cnt + uint64(r.Range(1, 2)))
		c.tr.Tag("unknown-id")
	}
	val := r.Intn(len(bandtesting.Validators))
	var eids []uint64
	if rq, err := k.GetRequest(c.ctx, rid); err == nil {
		for _, rr := range rq.RawRequests {
			eids = append(eids, uint64(rr.ExternalID))
		}
		// prefer a chosen validator that has not reported yet (so counts reach min_count)
		if r.Chance(3, 4) {
			var cands []int
			for _, v := range rq.RequestedValidators {
				va, _ := sdk.ValAddressFromBech32(v)
				if !k.HasReport(c.ctx, rid, va) {
					cands = append(cands, valIdx(v))
				}
			}
			if len(cands) > 0 {
				val = cands[r.Intn(len(cands))]
			}
		}
	} else {
		eids = []uint64{1, 2, 3}
	}
	// shuffle; malformed stream
	p := r.Perm(len(eids))
	sh := make([]uint64, len(eids))
	for i, j := range p {
		sh[i] = eids[j]
	}
	eids = sh
	oversize := false
	if r.Chance(1, 5) {
		switch r.Intn(6) {
		case 0:
			if len(eids) > 0 {
				eids = eids[1:]
			}
			c.tr.Tag("missing-eid")
		case 1:
			eids = append(eids, 77)
			c.tr.Tag("extra-eid")
		case 2:
			if len(eids) > 0 {
				eids[0] = 99
			}
			c.tr.Tag("wrong-eid")
		case 3:
			if len(eids) > 1 && r.Chance(2, 3) {
				// same count, one requested id answered twice and another not at all (adjacent or not)
				i := r.Intn(len(eids))
				j := (i + 1 + r.Intn(len(eids)-1)) % len(eids)
				eids[j] = eids[i]
				c.tr.Tag("dup-eid-same-count")
			} else if len(eids) > 0 {
				eids = append(eids, eids[0])
				c.tr.Tag("dup-eid")
			}
		case 4:
			eids = nil
			c.tr.Tag("empty-report")
		case 5:
			oversize = true
			c.tr.Tag("oversize")
		}
	}
	var raws []oracletypes.RawReport
	for i, e := range eids {
		data := []byte("answer")
		if n := r.PickInt(6, 6, 40, 260, 300, 512); n != 6 {
			// longer answers, also longer than the calldata limit (256) and within the report-data limit (512)
			data = bytes.Repeat([]byte{byte('a' + e%26)}, n)
		}
		if oversize && i == 0 {
			data = make([]byte, int(k.GetParams(c.ctx).MaxReportDataSize)+1)
		}
		raws = append(raws, oracletypes.NewRawReport(oracletypes.ExternalID(e), uint32(r.PickInt(0, 0, 1, 255)), data))
	}
	msg := oracletypes.NewMsgReportData(rid, raws, bandtesting.Validators[val].ValAddress)
	errS := fx.Try(msg.ValidateBasic)
	if errS == "" {
		errS = fx.Atomically(c.ctx, func(ctx sdk.Context) error { _, err := c.ms.ReportData(ctx, msg); return err })
	}
	if eids == nil {
		eids = []uint64{}
	}
	out := c.dump()
	out["err"] = errS
	c.tr.Op(fx.M{"op": "report", "val": val, "rid": uint64(rid), "eids": eids, "oversize": oversize && len(raws) > 0, "out": out})
}

// script4Outcome: oracle script 4 appends, for every external id and every asked validator in order, that validator's
// answer (whatever its exit code) and returns the OBI string of the concatenation — so the result of a request on
// it is known from the reports present at resolution
func (c *caseT) script4Outcome(rid oracletypes.RequestID) (string, bool) {
	k := c.app.OracleKeeper
	rq, err := k.GetRequest(c.ctx, rid)
	if err != nil || rq.OracleScriptID != 4 || rq.ExecuteGas != bandtesting.TestDefaultExecuteGas {
		return "", false
	}
	var cat []byte
	for _, raw := range rq.RawRequests {
		for _, vs := range rq.RequestedValidators {
			var rep *oracletypes.Report
			for _, x := range k.GetReports(c.ctx, rid) {
				if x.Validator == vs {
					y := x
					rep = &y
				}
			}
			if rep == nil {
				continue
			}
			for _, rr := range rep.RawReports {
				if rr.ExternalID == raw.ExternalID {
					cat = append(cat, rr.Data...)
				}
			}
		}
	}
	if len(cat) > 440 {
		return "", false // close to the span limit: not claimed
	}
	out := append([]byte{byte(len(cat) >> 24), byte(len(cat) >> 16), byte(len(cat) >> 8), byte(len(cat))}, cat...)
	return hex.EncodeToString(out), true
}

func (c *caseT) endBlock() {
	expects := [][]any{}
	for _, rid := range c.app.OracleKeeper.GetPendingResolveList(c.ctx) {
		if res, ok := c.script4Outcome(oracletypes.RequestID(rid)); ok {
			expects = append(expects, []any{uint64(rid), int(oracletypes.RESOLVE_STATUS_SUCCESS), res})
		}
	}
	errS := fx.Try(func() error { return oracle.EndBlocker(c.ctx, c.app.OracleKeeper) })
	out := c.dump()
	if errS != "" {
		out = fx.M{"panic": true, "err": errS}
	}
	c.tr.Op(fx.M{"op": "endBlock", "height": c.height, "now": fx.I(c.now), "exp": c.exp, "expects": expects, "out": out})
	// next block
	c.height++
	c.now += int64(c.r.PickInt(1, 1_000_000_000, 1_000_000_000, 2_500_000_000, 6_000_000_000))
	c.setClock()
	if c.r.Chance(1, 12) { // parameter change mid-flight
		c.exp = int64(c.r.PickInt(1, 2, 3, 5))
		p := c.app.OracleKeeper.GetParams(c.ctx)
		p.ExpirationBlockCount = uint64(c.exp)
		fx.Must(c.app.OracleKeeper.SetParams(c.ctx, p))
		c.tr.Tag("exp-changed")
	}
}

// pendingQuery: the gRPC query yoda asks at start-up ("which open requests still wait for MY report?") for one validator
func (c *caseT) pendingQuery() {
	i := c.r.Intn(len(bandtesting.Validators))
	q := oraclekeeper.Querier{Keeper: c.app.OracleKeeper}
	ids := []uint64{}
	e := fx.Try(func() error {
		res, err := q.PendingRequests(c.ctx, &oracletypes.QueryPendingRequestsRequest{ValidatorAddress: bandtesting.Validators[i].ValAddress.String()})
		if err == nil {
			ids = append(ids, res.RequestIDs...)
		}
		return err
	})
	c.tr.Op(fx.M{"op": "pendingQuery", "val": i, "out": fx.M{"err": e, "ids": ids}})
}

func runCase(app *fx.App, tr *fx.Trace, r *fx.Rng) {
	ctx, _ := app.Ctx.CacheContext()
	c := &caseT{app: app, ctx: ctx, tr: tr, r: r, ms: oraclekeeper.NewMsgServerImpl(app.OracleKeeper)}
	c.height = int64(r.Range(5, 20))
	c.now = (1_700_000_000+int64(r.Range(0, 50)))*1_000_000_000 + int64(r.PickInt(0, 1, 999_999_999))
	c.setClock()
	c.exp = int64(r.PickInt(1, 2, 3, 5))
	c.pen = int64(r.PickInt(0, 1_000_000_000, 5_000_000_000))
	p := app.OracleKeeper.GetParams(c.ctx)
	p.ExpirationBlockCount = uint64(c.exp)
	p.InactivePenaltyDuration = uint64(c.pen)
	fx.Must(app.OracleKeeper.SetParams(c.ctx, p))
	app.Fund(c.ctx, bandtesting.FeePayer.Address, "uband", sdkmath.NewInt(1_000_000_000_000))
	c.addScripts()
	tr.Reset(fx.M{"n": len(bandtesting.Validators)})
	for i := range bandtesting.Validators {
		if r.Chance(5, 6) {
			c.activate(i)
		}
	}
	n := r.Range(6, 30)
	for k := 0; k < n; k++ {
		switch x := r.Intn(20); {
		case x < 5:
			c.request()
		case x < 13:
			c.report()
		case x < 18:
			c.endBlock()
		default:
			c.activate(r.Intn(len(bandtesting.Validators)))
		}
		if r.Chance(1, 8) {
			c.pendingQuery()
		}
	}
	for k := 0; k < int(c.exp)+1 && r.Chance(3, 4); k++ {
		c.endBlock()
	}
}

func main() {
	a := fx.ParseArgs()
	app := fx.NewApp()
	defer app.Close()
	tr := fx.NewTrace(a.Out)
	n := a.Cases
	if n == 0 {
		n = 600
	}
	r := fx.NewRng(a.Seed)
	for i := 0; i < n; i++ {
		runCase(app, tr, r.Fork())
	}
	tr.Close()
	tr.WriteStats(a.Stats, nil)
}
