// c09: correspondence harness for C09 (committee selection).
// pkg/bandrng Rng/ChooseOne/ChooseSome/ChooseSomeMaxWeight vs the Lean pipeline (own HMAC-DRBG),
// and the real oracle GetRandomValidators / tss GetRandomMembers on the in-process app.
package main

import (
	"encoding/hex"
	"encoding/json"
	"fmt"
	"math"
	"strings"
	"time"

	sdkmath "cosmossdk.io/math"

	sdk "github.com/cosmos/cosmos-sdk/types"
	stakingtypes "github.com/cosmos/cosmos-sdk/x/staking/types"

	"github.com/bandprotocol/chain/v3/pkg/bandrng"
	"github.com/bandprotocol/chain/v3/pkg/tss"
	bandtesting "github.com/bandprotocol/chain/v3/testing"
	bandtsskeeper "github.com/bandprotocol/chain/v3/x/bandtss/keeper"
	bandtsstypes "github.com/bandprotocol/chain/v3/x/bandtss/types"
	tsskeeper "github.com/bandprotocol/chain/v3/x/tss/keeper"
	tsstypes "github.com/bandprotocol/chain/v3/x/tss/types"

	"verifharness/internal/fx"
	"verifharness/internal/tssfx"
)

type seedT struct {
	seed, nonce []byte
	chain       string
}

func genSeed(r *fx.Rng) seedT {
	s := seedT{seed: r.Bytes(r.PickInt(16, 32, 32, 32, 40)), nonce: r.Bytes(r.PickInt(0, 8, 8, 16)), chain: r.PickStr("BANDCHAIN", "band-laozi-testnet6", "", "x")}
	return s
}

func (s seedT) put(m fx.M) fx.M {
	m["seed"] = hex.EncodeToString(s.seed)
	m["nonce"] = hex.EncodeToString(s.nonce)
	m["chain"] = s.chain
	return m
}

func (s seedT) rng() *bandrng.Rng {
	g, err := bandrng.NewRng(s.seed, s.nonce, []byte(s.chain))
	fx.Must(err)
	return g
}

func genWeights(r *fx.Rng, tr *fx.Trace) []uint64 {
	n := r.PickInt(0, 1, 2, 3, 4, 5, 8, 12, 20)
	ws := make([]uint64, n)
	shape := r.Intn(8)
	for i := range ws {
		switch shape {
		case 0:
			ws[i] = 100 // equal
		case 1: // skewed
			if i == 0 {
				ws[i] = 1_000_000
			} else {
				ws[i] = uint64(r.Range(1, 10))
			}
		case 2: // some zeros
			ws[i] = uint64(r.PickInt(0, 0, 1, 5))
		case 3: // total exactly 2^64-1 / 2^64
			if i == 0 {
				ws[i] = math.MaxUint64 - uint64(n-1)
				if r.Bool() {
					ws[i]++
				}
			} else {
				ws[i] = 1
			}
		case 4:
			ws[i] = 1 << 62
		default:
			ws[i] = uint64(r.Range(1, 1000))
		}
	}
	tr.Tag(fmt.Sprintf("wshape%d", shape))
	return ws
}

func u64s(ws []uint64) []any {
	out := make([]any, len(ws))
	for i, w := range ws {
		out[i] = fx.U(w)
	}
	return out
}

func ints(l []int) []any {
	out := make([]any, len(l))
	for i, x := range l {
		out[i] = x
	}
	return out
}

func pureCase(tr *fx.Trace, r *fx.Rng) {
	tr.Reset(nil)
	s := genSeed(r)
	// the raw stream
	n := r.Range(1, 6)
	g := s.rng()
	var draws []any
	for i := 0; i < n; i++ {
		draws = append(draws, fx.U(g.NextUint64()))
	}
	tr.Op(s.put(fx.M{"op": "draws", "n": n, "out": draws}))
	ws := genWeights(r, tr)
	// ChooseOne
	{
		var idx int
		p := fx.Try(func() error { idx = bandrng.ChooseOne(s.rng(), ws); return nil })
		tr.Op(s.put(fx.M{"op": "chooseOne", "weights": u64s(ws), "out": fx.M{"panic": p != "", "res": idx}}))
	}
	cnt := r.PickInt(0, 1, 1, 2, 3, len(ws), len(ws), len(ws)+1)
	if cnt < 0 {
		cnt = 0
	}
	{
		var res []int
		p := fx.Try(func() error { res = bandrng.ChooseSome(s.rng(), append([]uint64{}, ws...), cnt); return nil })
		if p != "" {
			res = nil
		}
		tr.Op(s.put(fx.M{"op": "chooseSome", "weights": u64s(ws), "cnt": cnt, "out": fx.M{"panic": p != "", "res": ints(res)}}))
	}
	tries := r.PickInt(1, 1, 2, 3, 5, 10)
	{
		var res []int
		p := fx.Try(func() error {
			res = bandrng.ChooseSomeMaxWeight(s.rng(), append([]uint64{}, ws...), cnt, tries)
			return nil
		})
		if p != "" {
			res = nil
		}
		tr.Op(s.put(fx.M{"op": "maxWeight", "weights": u64s(ws), "cnt": cnt, "tries": tries, "out": fx.M{"panic": p != "", "res": ints(res)}}))
	}
}

func valIdx(op string) int {
	for i, v := range bandtesting.Validators {
		if v.ValAddress.String() == op {
			return i
		}
	}
	return -1
}

func validatorsCase(app *fx.App, tr *fx.Trace, r *fx.Rng) {
	ctx, _ := app.Ctx.CacheContext()
	tr.Reset(nil)
	sk, ok := app.StakingKeeper, app.OracleKeeper
	chain := r.PickStr("BANDCHAIN", "band-x")
	ctx = ctx.WithChainID(chain)
	for _, v := range bandtesting.Validators {
		if r.Chance(1, 2) {
			val, err := sk.GetValidator(ctx, v.ValAddress)
			fx.Must(err)
			amt := sdkmath.NewInt(int64(r.PickInt(1, 1000, 1_000_000, 99_000_000)))
			if r.Chance(1, 12) {
				// a stake that does not fit 64 bits: the sampler's weights are uint64, the request must be refused, not
				// sampled against the low 64 bits
				amt = sdkmath.NewIntFromUint64(math.MaxUint64).AddRaw(int64(r.PickInt(1, 2, 1001)))
				tr.Tag("stake-above-uint64")
			}
			app.Fund(ctx, bandtesting.FeePayer.Address, "uband", amt)
			_, err = sk.Delegate(ctx, bandtesting.FeePayer.Address, amt, stakingtypes.Unbonded, val, true)
			fx.Must(err)
		}
	}
	for _, v := range bandtesting.Validators {
		if r.Chance(3, 4) {
			fx.Must(ok.Activate(ctx, v.ValAddress))
		}
	}
	if r.Chance(1, 5) {
		i := r.Intn(len(bandtesting.Validators))
		val, _ := sk.GetValidator(ctx, bandtesting.Validators[i].ValAddress)
		cons, _ := val.GetConsAddr()
		fx.Must(sk.Jail(ctx, cons))
		tr.Tag("jailed")
	}
	seed := r.Bytes(32)
	app.RollingseedKeeper.SetRollingSeed(ctx, seed)
	p := ok.GetParams(ctx)
	p.SamplingTryCount = uint64(r.PickInt(1, 2, 3, 5))
	// the property quantifies over every sampling_try_count the chain ACCEPTS: boundary values that Params.Validate
	// lets through are tried too (on the unchanged tree 0 is rejected and never reaches the sampler)
	if r.Chance(1, 5) {
		q := p
		q.SamplingTryCount = 0
		if q.Validate() == nil {
			p = q
			tr.Tag("accepted-try-count-0")
		}
	}
	fx.Must(ok.SetParams(ctx, p))
	var elig [][]any
	all := [][]any{}
	seen := map[int]bool{}
	fx.Must(sk.IterateBondedValidatorsByPower(ctx, func(_ int64, val stakingtypes.ValidatorI) bool {
		i := valIdx(val.GetOperator())
		if i < 0 {
			return false
		}
		seen[i] = true
		act := ok.GetValidatorStatus(ctx, bandtesting.Validators[i].ValAddress).IsActive
		all = append(all, []any{i, true, act})
		if act {
			elig = append(elig, []any{i, json.Number(val.GetTokens().String())})
		}
		return false
	}))
	for i := range bandtesting.Validators {
		if !seen[i] {
			all = append(all, []any{i, false, ok.GetValidatorStatus(ctx, bandtesting.Validators[i].ValAddress).IsActive})
		}
	}
	if elig == nil {
		elig = [][]any{}
	}
	for k := 0; k < 3; k++ {
		size := r.Range(1, 4)
		id := r.PickU64(1, 2, 255, 256, math.MaxUint64, r.U64())
		var res []sdk.ValAddress
		errS := fx.Try(func() (err error) { res, err = ok.GetRandomValidators(ctx, size, id); return })
		out := []any{}
		for _, v := range res {
			if i := valIdx(v.String()); i >= 0 {
				out = append(out, i)
			} else {
				out = append(out, 999) // not a validator at all (e.g. an empty address)
			}
		}
		tr.Op(fx.M{"op": "randomValidators", "eligible": elig, "all": all, "size": size, "tries": p.SamplingTryCount,
			"seed": hex.EncodeToString(seed), "nonce": hex.EncodeToString(sdk.Uint64ToBigEndian(id)), "chain": chain,
			"out": fx.M{"err": errS, "res": out}})
	}
}

func membersCase(app *fx.App, tr *fx.Trace, r *fx.Rng) {
	ctx, _ := app.Ctx.CacheContext()
	tr.Reset(nil)
	tk := app.TSSKeeper
	chain := r.PickStr("BANDCHAIN", "band-x")
	ctx = ctx.WithChainID(chain)
	n := r.PickInt(1, 2, 3, 5, 8, 20, 25)
	th := uint64(r.Range(1, n))
	if r.Chance(1, 8) {
		th = uint64(n)
	}
	gid := tss.GroupID(r.Range(1, 3))
	tk.SetGroup(ctx, tsstypes.Group{ID: gid, Size_: uint64(n), Threshold: th, Status: tsstypes.GROUP_STATUS_ACTIVE, ModuleOwner: "bandtss"})
	var ms [][]any
	for i := 1; i <= n; i++ {
		addr := sdk.AccAddress(append([]byte{byte(i), byte(gid)}, make([]byte, 18)...))
		act := r.Chance(5, 6)
		de := r.Chance(5, 6)
		tk.SetMember(ctx, tsstypes.Member{ID: tss.MemberID(i), GroupID: gid, Address: addr.String(), PubKey: nil, IsActive: act})
		if de {
			fx.Must(tk.EnqueueDEs(ctx, addr, []tsstypes.DE{{PubD: []byte{1}, PubE: []byte{2}}}))
		}
		ms = append(ms, []any{i, act, de})
	}
	seed := r.Bytes(32)
	app.RollingseedKeeper.SetRollingSeed(ctx, seed)
	for k := 0; k < 2; k++ {
		nonce := r.Bytes(r.PickInt(8, 16))
		var res []tsstypes.Member
		errS := fx.Try(func() (err error) { res, err = tk.GetRandomMembers(ctx, gid, nonce); return })
		out := []any{}
		for _, m := range res {
			out = append(out, uint64(m.ID))
		}
		tr.Op(fx.M{"op": "randomMembers", "members": ms, "threshold": th,
			"seed": hex.EncodeToString(seed), "nonce": hex.EncodeToString(nonce), "chain": chain, "out": fx.M{"err": errS, "res": out}})
	}
}

// groupCase: a governance MsgTransitionGroup proposes the members of the next signing group; some lists name one account
// twice, also spelled differently (bech32 is case-insensitive: all-uppercase is the same account).  A group holding one
// participant twice could put that participant on a committee twice.
func groupCase(app *fx.App, tr *fx.Trace, r *fx.Rng) {
	ctx, _ := app.Ctx.CacheContext()
	ctx = ctx.WithBlockTime(time.Unix(1_700_000_000, 0).UTC())
	tr.Reset(nil)
	pool := []sdk.AccAddress{bandtesting.Alice.Address, bandtesting.Bob.Address, bandtesting.Carol.Address, bandtesting.Validators[0].Address}
	n := r.Range(1, 5)
	var idx []int
	var members []string
	for i := 0; i < n; i++ {
		k := r.Intn(len(pool))
		if r.Chance(2, 3) { // mostly distinct
			k = i % len(pool)
		}
		s := pool[k].String()
		if r.Chance(1, 3) {
			s = strings.ToUpper(s)
		}
		idx = append(idx, k)
		members = append(members, s)
	}
	th := uint64(r.Range(1, n))
	bp := app.BandtssKeeper.GetParams(ctx)
	msg := bandtsstypes.NewMsgTransitionGroup(members, th, ctx.BlockTime().Add((bp.MinTransitionDuration+bp.MaxTransitionDuration)/2), app.BandtssKeeper.GetAuthority())
	vb := fx.ErrStr(msg.ValidateBasic())
	errS := ""
	if vb == "" {
		errS = fx.Try(func() error {
			_, err := bandtsskeeper.NewMsgServerImpl(app.BandtssKeeper).TransitionGroup(ctx, msg)
			return err
		})
	}
	tr.Op(fx.M{"op": "createGroup", "accounts": idx, "threshold": th, "out": fx.M{"validateBasic": vb, "err": errS}})
}

// signingCase: the committee of a REAL signing.  A DKG-built group gets nonces from some members, several signings are
// requested through the tss keeper (so that signing ids differ from the group id and from each other) and the members
// assigned to each signing's first attempt are read back.  The line is a `randomMembers` line whose nonce is the one the
// property names: signing id ‖ attempt (big-endian 64-bit each).
func signingCase(app *fx.App, tr *fx.Trace, r *fx.Rng, caseNo int) {
	ctx, _ := app.Ctx.CacheContext()
	tr.Reset(nil)
	chain := r.PickStr("BANDCHAIN", "band-x")
	ctx = ctx.WithChainID(chain)
	n := r.Range(2, 5)
	th := r.Range(1, n-1)
	g, err := tssfx.NewGroupWith(app, ctx, tssfx.NewAccounts(int64(caseNo)*17+3, n), uint64(th), bandtsstypes.ModuleName)
	fx.Must(err)
	tk := app.TSSKeeper
	tms := tsskeeper.NewMsgServerImpl(tk)
	seed := r.Bytes(32)
	app.RollingseedKeeper.SetRollingSeed(ctx, seed)
	for k := 0; k < 3; k++ {
		var ms [][]any
		for id := 1; id <= n; id++ {
			if r.Chance(3, 4) {
				_, err := tms.SubmitDEs(ctx, &tsstypes.MsgSubmitDEs{DEs: g.NewDEs(id, 1), Sender: g.Addr(id).String()})
				fx.Must(err)
			}
			m, err := tk.GetMember(ctx, g.GroupID, tss.MemberID(id))
			fx.Must(err)
			ms = append(ms, []any{id, m.IsActive, tk.HasDE(ctx, g.Addr(id))})
		}
		content := tsstypes.NewTextSignatureOrder(r.Bytes(r.Range(1, 20)))
		orig := tsstypes.NewDirectOriginator(ctx.ChainID(), g.Addr(1).String(), "")
		var sid tss.SigningID
		errS := fx.Atomically(ctx, func(c sdk.Context) error {
			var e error
			sid, e = tk.RequestSigning(c, g.GroupID, &orig, content)
			return e
		})
		out := []any{}
		want := tk.GetSigningCount(ctx)
		if errS == "" {
			sa, err := tk.GetSigningAttempt(ctx, sid, 1)
			fx.Must(err)
			for _, am := range sa.AssignedMembers {
				out = append(out, uint64(am.MemberID))
			}
		} else {
			want++ // the id the failed request would have taken
		}
		nonce := append(sdk.Uint64ToBigEndian(want), sdk.Uint64ToBigEndian(1)...)
		tr.Op(fx.M{"op": "randomMembers", "members": ms, "threshold": th, "signing": want,
			"seed": hex.EncodeToString(seed), "nonce": hex.EncodeToString(nonce), "chain": chain, "out": fx.M{"err": errS, "res": out}})
	}
}

func main() {
	a := fx.ParseArgs()
	app := fx.NewApp()
	defer app.Close()
	tr := fx.NewTrace(a.Out)
	n := a.Cases
	if n == 0 {
		n = 3000
	}
	r := fx.NewRng(a.Seed)
	for i := 0; i < n; i++ {
		switch i % 6 {
		case 4:
			validatorsCase(app, tr, r.Fork())
		case 5:
			if i%12 == 11 {
				signingCase(app, tr, r.Fork(), i)
			} else if i%24 == 5 {
				groupCase(app, tr, r.Fork())
			} else {
				membersCase(app, tr, r.Fork())
			}
		default:
			pureCase(tr, r.Fork())
		}
	}
	tr.Close()
	tr.WriteStats(a.Stats, nil)
}
