// c17: correspondence harness for C17 (tunnel deposits / activation gate) through the REAL tunnel
// msg server: CreateTunnel (with initial deposit), DepositToTunnel, WithdrawFromTunnel, Activate, Deactivate.
package main

import (
	storetypes "cosmossdk.io/store/types"
	"encoding/json"
	"fmt"
	"sort"

	sdkmath "cosmossdk.io/math"

	sdk "github.com/cosmos/cosmos-sdk/types"
	authtypes "github.com/cosmos/cosmos-sdk/x/auth/types"
	minttypes "github.com/cosmos/cosmos-sdk/x/mint/types"

	bandtesting "github.com/bandprotocol/chain/v3/testing"
	tunnelkeeper "github.com/bandprotocol/chain/v3/x/tunnel/keeper"
	tunneltypes "github.com/bandprotocol/chain/v3/x/tunnel/types"

	"verifharness/internal/fx"
)

var denoms = []string{"uband", "udep"}

type caseT struct {
	app   *fx.App
	ctx   sdk.Context
	tr    *fx.Trace
	r     *fx.Rng
	accts []bandtesting.Account
	ms    tunneltypes.MsgServer
	minD  []int64
}

func coinsOf(amt []int64) sdk.Coins {
	c := sdk.NewCoins()
	for i, a := range amt {
		if a > 0 {
			c = c.Add(sdk.NewInt64Coin(denoms[i], a))
		}
	}
	return c
}

func amounts(c sdk.Coins) []any {
	out := []any{}
	for _, d := range denoms {
		out = append(out, json.Number(c.AmountOf(d).String()))
	}
	return out
}

func (c *caseT) dump() fx.M {
	k := c.app.TunnelKeeper
	n := k.GetTunnelCount(c.ctx)
	tunnels := []any{}
	for id := uint64(1); id <= n; id++ {
		t, err := k.GetTunnel(c.ctx, id)
		if err != nil {
			tunnels = append(tunnels, nil)
			continue
		}
		creator := -1
		deps := []any{}
		for i, a := range c.accts {
			if a.Address.String() == t.Creator {
				creator = i
			}
			if d, ok := k.GetDeposit(c.ctx, id, a.Address); ok {
				deps = append(deps, amounts(d.Amount))
			} else {
				deps = append(deps, nil)
			}
		}
		tunnels = append(tunnels, fx.M{"creator": creator, "active": t.IsActive, "total": amounts(t.TotalDeposit), "deposits": deps})
	}
	bal := []any{}
	for _, a := range c.accts {
		bal = append(bal, amounts(c.app.BankKeeper.GetAllBalances(c.ctx, a.Address)))
	}
	active := k.GetActiveTunnelIDs(c.ctx)
	if active == nil {
		active = []uint64{}
	}
	return fx.M{"tunnels": tunnels, "activeIdx": active, "bal": bal,
		"module": amounts(c.app.BankKeeper.GetAllBalances(c.ctx, c.app.AccountKeeper.GetModuleAddress(tunneltypes.ModuleName)))}
}

// genAmt: amounts around the minimum deposit, around the depositor's balance / own deposit, small, zero
func (c *caseT) genAmt(ref []int64) []int64 {
	r := c.r
	amt := make([]int64, len(denoms))
	for i := range denoms {
		if c.minD[i] == 0 && !r.Chance(1, 6) {
			continue // a denom the tunnel does not accept: mostly leave it out
		}
		switch r.Intn(8) {
		case 0:
			amt[i] = 0
		case 1:
			amt[i] = c.minD[i]
		case 2:
			amt[i] = c.minD[i] - 1
		case 3:
			amt[i] = ref[i]
		case 4:
			amt[i] = ref[i] + 1
		case 5:
			amt[i] = 1
		default:
			amt[i] = int64(r.Range(0, 150))
		}
		if amt[i] < 0 {
			amt[i] = 0
		}
	}
	return amt
}

func (c *caseT) emit(m fx.M, errS string) {
	out := c.dump()
	out["err"] = errS
	m["out"] = out
	c.tr.Op(m)
}

func (c *caseT) balOf(a int) []int64 {
	out := make([]int64, len(denoms))
	for i, d := range denoms {
		out[i] = c.app.BankKeeper.GetBalance(c.ctx, c.accts[a].Address, d).Amount.Int64()
	}
	return out
}

func (c *caseT) op() {
	r := c.r
	k := c.app.TunnelKeeper
	a := r.Intn(len(c.accts))
	acc := c.accts[a]
	n := k.GetTunnelCount(c.ctx)
	tid := uint64(1)
	if n > 0 {
		tid = 1 + uint64(r.Intn(int(n)))
	}
	if r.Chance(1, 15) {
		tid = n + 1 // unknown tunnel
	}
	switch x := r.Intn(20); {
	case x < 3 || n == 0:
		amt := c.genAmt(c.balOf(a))
		sd := []tunneltypes.SignalDeviation{tunneltypes.NewSignalDeviation("CS:BTC-USD", 100, 200)}
		var msg *tunneltypes.MsgCreateTunnel
		var err error
		if r.Bool() {
			msg, err = tunneltypes.NewMsgCreateIBCTunnel(sd, 60, coinsOf(amt), acc.Address.String())
		} else {
			msg, err = tunneltypes.NewMsgCreateTSSTunnel(sd, 60, "eth", "0xabc", 1, coinsOf(amt), acc.Address.String())
		}
		fx.Must(err)
		e := fx.Try(msg.ValidateBasic)
		if e == "" {
			e = fx.Atomically(c.ctx, func(ctx sdk.Context) error { _, err := c.ms.CreateTunnel(ctx, msg); return err })
		}
		c.emit(fx.M{"op": "create", "acct": a, "amt": amt}, e)
	case x < 9:
		amt := c.genAmt(c.balOf(a))
		coins := coinsOf(amt)
		if coins.IsZero() {
			return // rejected by ValidateBasic (invalid coins); not part of the model
		}
		msg := tunneltypes.NewMsgDepositToTunnel(tid, coins, acc.Address.String())
		e := fx.Try(msg.ValidateBasic)
		if e == "" {
			e = fx.Atomically(c.ctx, func(ctx sdk.Context) error { _, err := c.ms.DepositToTunnel(ctx, msg); return err })
		}
		c.emit(fx.M{"op": "deposit", "tid": tid, "acct": a, "amt": amt}, e)
	case x < 15:
		if r.Chance(3, 4) { // prefer somebody who has a deposit in this tunnel
			for i, ac := range c.accts {
				if _, ok := k.GetDeposit(c.ctx, tid, ac.Address); ok && r.Chance(1, 2) {
					a, acc = i, ac
				}
			}
		}
		own := make([]int64, len(denoms))
		if d, ok := k.GetDeposit(c.ctx, tid, acc.Address); ok {
			for i, dn := range denoms {
				own[i] = d.Amount.AmountOf(dn).Int64()
			}
		}
		amt := c.genAmt(own)
		coins := coinsOf(amt)
		if coins.IsZero() {
			return
		}
		msg := tunneltypes.NewMsgWithdrawFromTunnel(tid, coins, acc.Address.String())
		e := fx.Try(msg.ValidateBasic)
		if e == "" {
			e = fx.Atomically(c.ctx, func(ctx sdk.Context) error { _, err := c.ms.WithdrawFromTunnel(ctx, msg); return err })
		}
		c.emit(fx.M{"op": "withdraw", "tid": tid, "acct": a, "amt": amt}, e)
	case x < 18:
		// mostly the creator, sometimes somebody else
		if t, err := k.GetTunnel(c.ctx, tid); err == nil && r.Chance(3, 4) {
			for i, ac := range c.accts {
				if ac.Address.String() == t.Creator {
					a, acc = i, ac
				}
			}
		}
		msg := tunneltypes.NewMsgActivate(tid, acc.Address.String())
		e := fx.Atomically(c.ctx, func(ctx sdk.Context) error { _, err := c.ms.Activate(ctx, msg); return err })
		c.emit(fx.M{"op": "activate", "tid": tid, "acct": a}, e)
	default:
		if t, err := k.GetTunnel(c.ctx, tid); err == nil && r.Chance(3, 4) {
			for i, ac := range c.accts {
				if ac.Address.String() == t.Creator {
					a, acc = i, ac
				}
			}
		}
		msg := tunneltypes.NewMsgDeactivate(tid, acc.Address.String())
		e := fx.Atomically(c.ctx, func(ctx sdk.Context) error { _, err := c.ms.Deactivate(ctx, msg); return err })
		c.emit(fx.M{"op": "deactivate", "tid": tid, "acct": a}, e)
	}
}

// genesis: `ValidateGenesis` on the exported state (a reachable state is a valid genesis) and on copies of it in which one
// deposit clause is broken (records of a tunnel dropped, a total moved by one, a record moved to another tunnel, a record
// duplicated, a record for an unknown tunnel)
func (c *caseT) genesis() {
	r := c.r
	g := tunnelkeeper.ExportGenesis(c.ctx, c.app.TunnelKeeper)
	// the store lists deposits by depositor ADDRESS, and the test accounts are drawn afresh in every process: bring the list
	// into an order that depends on the case only (tunnel, account number) before records are picked by position
	whoOf := func(d tunneltypes.Deposit) int {
		for i, ac := range c.accts {
			if ac.Address.String() == d.Depositor {
				return i
			}
		}
		return 99
	}
	sort.SliceStable(g.Deposits, func(i, j int) bool {
		if g.Deposits[i].TunnelID != g.Deposits[j].TunnelID {
			return g.Deposits[i].TunnelID < g.Deposits[j].TunnelID
		}
		return whoOf(g.Deposits[i]) < whoOf(g.Deposits[j])
	})
	variant := r.Intn(10)
	if len(g.Tunnels) == 0 {
		variant = 0
	}
	pickT := func() int { return r.Intn(len(g.Tunnels)) }
	switch variant {
	case 1: // the records of one tunnel disappear (its total stays)
		tid := g.Tunnels[pickT()].ID
		var keep []tunneltypes.Deposit
		for _, d := range g.Deposits {
			if d.TunnelID != tid {
				keep = append(keep, d)
			}
		}
		g.Deposits = keep
	case 2: // a total is off by one
		k := pickT()
		g.Tunnels[k].TotalDeposit = g.Tunnels[k].TotalDeposit.Add(sdk.NewInt64Coin(denoms[r.Intn(len(denoms))], 1))
	case 3: // a record is booked on another tunnel
		if len(g.Deposits) > 0 {
			k := r.Intn(len(g.Deposits))
			g.Deposits[k].TunnelID = g.Tunnels[pickT()].ID
		}
	case 4: // a record twice
		if len(g.Deposits) > 0 {
			g.Deposits = append(g.Deposits, g.Deposits[r.Intn(len(g.Deposits))])
		}
	case 6: // a tunnel whose id is beyond the counter (the next created tunnel would take the same id)
		k := pickT()
		g.Tunnels[k].ID = g.TunnelCount + uint64(r.Range(1, 2))
		for i := range g.Deposits {
			if g.Deposits[i].TunnelID == uint64(k+1) {
				g.Deposits[i].TunnelID = g.Tunnels[k].ID
			}
		}
	case 7: // the same tunnel twice
		g.Tunnels = append(g.Tunnels, g.Tunnels[pickT()])
		g.TunnelCount++
	case 8, 9: // one depositor's record split in two (the sums still match): at the end of the list (8) or next to it (9)
		if len(g.Deposits) > 0 {
			k := r.Intn(len(g.Deposits))
			d := g.Deposits[k]
			var half, rest sdk.Coins
			for _, c := range d.Amount {
				h := c.Amount.QuoRaw(2)
				if h.IsPositive() {
					half = half.Add(sdk.NewCoin(c.Denom, h))
				}
				rest = rest.Add(sdk.NewCoin(c.Denom, c.Amount.Sub(h)))
			}
			if !half.IsZero() {
				g.Deposits[k].Amount = rest
				d2 := d
				d2.Amount = half
				if variant == 8 {
					g.Deposits = append(g.Deposits, d2)
				} else {
					g.Deposits = append(g.Deposits[:k+1], append([]tunneltypes.Deposit{d2}, g.Deposits[k+1:]...)...)
				}
			}
		}
	case 5: // a record for a tunnel that does not exist
		if len(g.Deposits) > 0 {
			d := g.Deposits[r.Intn(len(g.Deposits))]
			d.TunnelID = g.TunnelCount + 1
			g.Deposits = append(g.Deposits, d)
		}
	}
	tun := [][]any{}
	for _, t := range g.Tunnels {
		tun = append(tun, []any{t.ID, amounts(t.TotalDeposit)})
	}
	deps := [][]any{}
	for _, d := range g.Deposits {
		who := 99
		for i, ac := range c.accts {
			if ac.Address.String() == d.Depositor {
				who = i
			}
		}
		deps = append(deps, []any{d.TunnelID, who, amounts(d.Amount)})
	}
	err := tunneltypes.ValidateGenesis(*g)
	es := ""
	if err != nil {
		es = "rejected"
	}
	c.tr.Tag(fmt.Sprintf("genesis-variant-%d", variant))
	c.tr.Op(fx.M{"op": "genesis", "variant": variant, "count": g.TunnelCount, "tunnels": tun, "deposits": deps, "out": fx.M{"accepted": err == nil, "err": es}})
}

// importBalance: a genesis that passes ValidateGenesis is imported on a branch whose tunnel module account holds MORE, LESS
// or NOTHING of what the genesis says it escrows (deposits + fees): InitGenesis must refuse every unbacked one
func (c *caseT) importBalance() {
	cctx, _ := c.ctx.CacheContext()
	g := tunnelkeeper.ExportGenesis(cctx, c.app.TunnelKeeper)
	if tunneltypes.ValidateGenesis(*g) != nil {
		return
	}
	var want sdk.Coins
	for _, d := range g.Deposits {
		want = want.Add(d.Amount...)
	}
	want = want.Add(g.TotalFees.Total()...)
	modAddr := c.app.AccountKeeper.GetModuleAddress(tunneltypes.ModuleName)
	have := c.app.BankKeeper.GetAllBalances(cctx, modAddr)
	variant := c.r.Intn(4)
	switch variant {
	case 0: // untouched
	case 1: // the module account is empty
		if !have.IsZero() {
			fx.Must(c.app.BankKeeper.SendCoinsFromModuleToModule(cctx, tunneltypes.ModuleName, authtypes.FeeCollectorName, have))
		}
	case 2: // one unit short in one denom
		if !have.IsZero() {
			fx.Must(c.app.BankKeeper.SendCoinsFromModuleToModule(cctx, tunneltypes.ModuleName, authtypes.FeeCollectorName, sdk.NewCoins(sdk.NewInt64Coin(have[c.r.Intn(len(have))].Denom, 1))))
		}
	case 3: // one unit too many
		extra := sdk.NewCoins(sdk.NewInt64Coin(denoms[c.r.Intn(len(denoms))], 1))
		fx.Must(c.app.BankKeeper.MintCoins(cctx, minttypes.ModuleName, extra))
		fx.Must(c.app.BankKeeper.SendCoinsFromModuleToModule(cctx, minttypes.ModuleName, tunneltypes.ModuleName, extra))
	}
	have = c.app.BankKeeper.GetAllBalances(cctx, modAddr)
	e := fx.Try(func() error {
		wipe(cctx.KVStore(c.app.GetKey(tunneltypes.StoreKey)))
		tunnelkeeper.InitGenesis(cctx, c.app.TunnelKeeper, g)
		return nil
	})
	c.tr.Tag(fmt.Sprintf("import-balance-variant-%d", variant))
	c.tr.Op(fx.M{"op": "importBalance", "variant": variant, "escrowed": amounts(want), "balance": amounts(have), "out": fx.M{"accepted": e == ""}})
}

// reimport: export the module's genesis, validate it, initialise a branch of the store from it; the dump must not change
// setMinDeposit: governance changes the minimum deposit (MsgUpdateParams → SetParams); existing tunnels are not touched
func (c *caseT) setMinDeposit() {
	c.minD = [][]int64{{100, 0}, {100, 50}, {1, 0}, {0, 70}, {300, 0}, {2000, 0}}[c.r.Intn(6)]
	p := c.app.TunnelKeeper.GetParams(c.ctx)
	p.MinDeposit = coinsOf(c.minD)
	fx.Must(c.app.TunnelKeeper.SetParams(c.ctx, p))
	c.emit(fx.M{"op": "setMinDeposit", "amt": c.minD}, "")
}

func (c *caseT) reimport() {
	cctx, _ := c.ctx.CacheContext()
	saved := c.ctx
	e := fx.Try(func() error {
		g := tunnelkeeper.ExportGenesis(cctx, c.app.TunnelKeeper)
		if err := tunneltypes.ValidateGenesis(*g); err != nil {
			return err
		}
		wipe(cctx.KVStore(c.app.GetKey(tunneltypes.StoreKey)))
		tunnelkeeper.InitGenesis(cctx, c.app.TunnelKeeper, g)
		return nil
	})
	c.ctx = cctx
	out := c.dump()
	c.ctx = saved
	out["err"] = e
	c.tr.Op(fx.M{"op": "reimport", "out": out})
}

// wipe empties a module store (on a branch): the import then starts from nothing but the genesis, as on a new chain
func wipe(st storetypes.KVStore) {
	var keys [][]byte
	it := st.Iterator(nil, nil)
	for ; it.Valid(); it.Next() {
		keys = append(keys, append([]byte{}, it.Key()...))
	}
	it.Close()
	for _, k := range keys {
		st.Delete(k)
	}
}

func runCase(app *fx.App, tr *fx.Trace, r *fx.Rng) {
	ctx, _ := app.Ctx.CacheContext()
	c := &caseT{app: app, ctx: ctx, tr: tr, r: r, accts: []bandtesting.Account{bandtesting.Alice, bandtesting.Bob, bandtesting.Carol},
		ms: tunnelkeeper.NewMsgServerImpl(app.TunnelKeeper)}
	c.minD = [][]int64{{100, 0}, {100, 50}, {1, 0}, {0, 70}}[r.Intn(4)]
	p := app.TunnelKeeper.GetParams(ctx)
	p.MinDeposit = coinsOf(c.minD)
	fx.Must(app.TunnelKeeper.SetParams(ctx, p))
	var bal []any
	for _, a := range c.accts {
		for _, d := range denoms {
			b := app.BankKeeper.GetBalance(ctx, a.Address, d)
			if b.Amount.IsPositive() {
				fx.Must(app.BankKeeper.SendCoinsFromAccountToModule(ctx, a.Address, authtypes.FeeCollectorName, sdk.NewCoins(b)))
			}
			app.Fund(ctx, a.Address, d, sdkmath.NewInt(int64(r.PickInt(60, 150, 400, 2000))))
		}
		bal = append(bal, amounts(app.BankKeeper.GetAllBalances(ctx, a.Address)))
	}
	tr.Reset(fx.M{"denoms": denoms, "accts": []int{0, 1, 2}, "minDeposit": c.minD, "bal": bal})
	n := r.Range(8, 40)
	for i := 0; i < n; i++ {
		c.op()
		if r.Chance(1, 8) {
			c.genesis()
		}
		if r.Chance(1, 12) {
			c.setMinDeposit()
			c.reimport()
			c.importBalance()
		}
	}
	c.genesis()
	c.reimport()
}

func main() {
	a := fx.ParseArgs()
	app := fx.NewApp()
	defer app.Close()
	tr := fx.NewTrace(a.Out)
	n := a.Cases
	if n == 0 {
		n = 500
	}
	r := fx.NewRng(a.Seed)
	for i := 0; i < n; i++ {
		runCase(app, tr, r.Fork())
	}
	tr.Close()
	tr.WriteStats(a.Stats, nil)
}
