package main

import (
	"fmt"

	"verifharness/internal/fx"
)

func main() {
	a := fx.NewApp()
	defer a.Close()
	for i, acc := range a.Accounts() {
		fmt.Println(i, a.BankKeeper.GetAllBalances(a.Ctx, acc.Address))
	}
}
