package main

import (
	"fmt"
	"time"

	"verifharness/internal/fx"
)

func main() {
	t0 := time.Now()
	a := fx.NewApp()
	defer a.Close()
	fmt.Println("app up in", time.Since(t0), "height", a.LastBlockHeight())
	p := a.FeedsKeeper.GetParams(a.Ctx)
	fmt.Printf("%+v\n", p)
}
