// storekeys regenerates lean/BandVerif/Generated/StoreKeys.lean: the names of the KV stores the application
// mounts, obtained by RUNNING the current tree's app/keepers.GenerateKeys (the names are constants of external
// packages, so they are evaluated by the compiler rather than parsed), plus the positional reads of
// GetMultiStoreProof parsed from client/grpc/oracle/proof/multi_store.go.
package main

import (
	"flag"
	"fmt"
	"path/filepath"
	"sort"
	"strings"

	"github.com/bandprotocol/chain/v3/app/keepers"

	"verifharness/internal/xt"
)

func main() {
	repo := flag.String("repo", "/repo", "repository root")
	out := flag.String("out", "/verif/lean/BandVerif/Generated", "output directory")
	flag.Parse()
	ak := &keepers.AppKeepers{}
	ak.GenerateKeys()
	var names []string
	for n := range ak.GetKVStoreKey() {
		names = append(names, n)
	}
	sort.Strings(names)
	l := xt.NewLean(filepath.Join(*out, "StoreKeys.lean"), "mounted KV store names (app/keepers.GenerateKeys, executed) and GetMultiStoreProof's positional reads")
	l.P("namespace BandVerif.Generated.StoreKeys")
	var q []string
	for _, n := range names {
		q = append(q, xt.LeanStr(n))
	}
	l.P("/-- sorted by name: the order of the multistore Merkle leaves -/")
	l.P("def sorted : List String := [%s]", strings.Join(q, ", "))
	p := xt.Load(filepath.Join(*repo, "client/grpc/oracle/proof"))
	body := p.Norm(p.Func("", "GetMultiStoreProof").Body)
	// field := multiStoreEp.Path[i].Prefix[1:] | .Suffix  |  multiStoreEp.Value
	for _, f := range []string{"OracleIAVLStateHash", "MintStoreMerkleHash", "ParamsToRestakeStoresMerkleHash", "RollingseedToTransferStoresMerkleHash",
		"TssToUpgradeStoresMerkleHash", "AuthToIcahostStoresMerkleHash"} {
		i := strings.Index(body, f+":tmbytes.HexBytes(multiStoreEp.")
		if i < 0 {
			xt.Fail("GetMultiStoreProof: field %s not recognised", f)
		}
		rest := body[i+len(f)+len(":tmbytes.HexBytes(multiStoreEp."):]
		rest = rest[:strings.Index(rest, ")")]
		switch {
		case rest == "Value":
			l.P("def read_%s : Nat × String := (0, \"value\")", f)
		case strings.HasPrefix(rest, "Path["):
			var idx int
			var kind string
			if _, err := fmt.Sscanf(rest, "Path[%d].%s", &idx, &kind); err != nil {
				xt.Fail("GetMultiStoreProof: cannot parse %s", rest)
			}
			switch kind {
			case "Prefix[1:]":
				l.P("def read_%s : Nat × String := (%d, \"prefix-after-first-byte\")", f, idx)
			case "Suffix":
				l.P("def read_%s : Nat × String := (%d, \"suffix\")", f, idx)
			default:
				xt.Fail("GetMultiStoreProof: unknown read %s", rest)
			}
		default:
			xt.Fail("GetMultiStoreProof: unknown read %s", rest)
		}
	}
	l.P("end BandVerif.Generated.StoreKeys")
	l.Write()
	fmt.Println("extracted StoreKeys")
}
