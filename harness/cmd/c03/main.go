// c03 drives the REAL threshold-signing code: pkg/tss (Lagrange coefficients, binding factors, nonces, partial
// signatures, verification, combination) on synthetic Shamir-shared groups with arbitrary member ids (ids above
// 20 leave the precomputed table), and the x/tss msg server / end-blocker on DKG-built groups, submitting the
// correct partial signature and every single-component corruption of it.  The Lean driver recomputes everything
// with its own curve, Keccak and Lagrange code (Drivers/C03.lean).
package main

import (
	"encoding/hex"
	"math/big"
	"sort"

	sdk "github.com/cosmos/cosmos-sdk/types"

	"github.com/bandprotocol/chain/v3/pkg/tss"
	bandtsstypes "github.com/bandprotocol/chain/v3/x/bandtss/types"
	tssmod "github.com/bandprotocol/chain/v3/x/tss"
	tsskeeper "github.com/bandprotocol/chain/v3/x/tss/keeper"
	tsstypes "github.com/bandprotocol/chain/v3/x/tss/types"

	"verifharness/internal/fx"
	"verifharness/internal/tssfx"
)

var orderN, _ = new(big.Int).SetString("115792089237316195423570985008687907852837564279074904382605163141518161494337", 10)

func hx(b []byte) string { return hex.EncodeToString(b) }

func randScalar(r *fx.Rng) *big.Int {
	v := new(big.Int).SetBytes(r.Bytes(32))
	v.Mod(v, new(big.Int).Sub(orderN, big.NewInt(1)))
	return v.Add(v, big.NewInt(1))
}

func sc(v *big.Int) tss.Scalar {
	b := v.Bytes()
	out := make([]byte, 32)
	copy(out[32-len(b):], b)
	s, err := tss.NewScalar(out)
	fx.Must(err)
	return s
}

func midsOf(ids []int) []tss.MemberID {
	var out []tss.MemberID
	for _, i := range ids {
		out = append(out, tss.MemberID(i))
	}
	return out
}

// ---- Lagrange differential ---------------------------------------------------------------------------
func opLagrange(tr *fx.Trace, mid int, ids []int) {
	var l tss.Scalar
	var err error
	p := fx.Try(func() error { l, err = tss.ComputeLagrangeCoefficient(tss.MemberID(mid), midsOf(ids)); return nil })
	out := fx.M{"err": err != nil, "coeff": "", "panic": p}
	if err == nil && p == "" {
		out["coeff"] = hx(l)
	}
	tr.Op(fx.M{"op": "lagrange", "mid": mid, "ids": ids, "out": out})
}

func randIDs(r *fx.Rng) []int {
	maxID := r.PickInt(5, 12, 20, 20, 21, 40, 100, 1000)
	n := r.Range(1, 12)
	if n > maxID {
		n = maxID
	}
	p := r.Perm(maxID)
	var ids []int
	for i := 0; i < n; i++ {
		ids = append(ids, p[i]+1)
	}
	if r.Chance(1, 12) && len(ids) > 1 {
		ids[len(ids)-1] = ids[0] // duplicate
	}
	if r.Chance(1, 2) {
		sort.Ints(ids)
	}
	return ids
}

// all (i, S) with S a non-empty subset of {1..n}
func sweepLagrange(tr *fx.Trace, n int) {
	tr.Reset(nil)
	for mask := 1; mask < 1<<uint(n); mask++ {
		var ids []int
		for b := 0; b < n; b++ {
			if mask&(1<<uint(b)) != 0 {
				ids = append(ids, b+1)
			}
		}
		for _, i := range ids {
			opLagrange(tr, i, ids)
		}
	}
}

// huntLagrange is the search for a failing input that runs when a proof obligation about the coefficient routines no
// longer checks: EVERY non-empty subset of {1..n} and every member of it, compared in-process with the textbook formula
// over big integers.  Only the disagreeing inputs (at most 25) are written to the trace, where the Lean driver judges
// them like any other `lagrange` line.
func huntLagrange(tr *fx.Trace, n int) {
	tr.Reset(nil)
	type hit struct {
		mid int
		ids []int
	}
	workers := 16
	hits := make([][]hit, workers)
	done := make(chan int, workers)
	for w := 0; w < workers; w++ {
		go func(w int) {
			for mask := 1 + w; mask < 1<<uint(n) && len(hits[w]) < 25; mask += workers {
				var ids []int
				for b := 0; b < n; b++ {
					if mask&(1<<uint(b)) != 0 {
						ids = append(ids, b+1)
					}
				}
				for _, i := range ids {
					num, den := big.NewInt(1), big.NewInt(1)
					for _, j := range ids {
						if j != i {
							num.Mul(num, big.NewInt(int64(j)))
							num.Mod(num, orderN)
							den.Mul(den, big.NewInt(int64(j-i)))
							den.Mod(den, orderN)
						}
					}
					want := num.Mul(num, den.ModInverse(den, orderN))
					want.Mod(want, orderN)
					got, err := tss.ComputeLagrangeCoefficient(tss.MemberID(i), midsOf(ids))
					if err != nil || new(big.Int).SetBytes(got).Cmp(want) != 0 {
						hits[w] = append(hits[w], hit{i, ids})
					}
				}
			}
			done <- w
		}(w)
	}
	for w := 0; w < workers; w++ {
		<-done
	}
	k := 0
	for _, hs := range hits {
		for _, h := range hs {
			if k < 25 {
				opLagrange(tr, h.mid, h.ids)
				k++
			}
		}
	}
	opLagrange(tr, 1, []int{1, 2, 3}) // (the trace is never empty)
}

// ---- pure pkg/tss signing flow on a synthetic Shamir group ----------------------------------------------
func opFlow(tr *fx.Trace, r *fx.Rng) {
	t := r.PickInt(1, 2, 3, 3, 5, 8, 16, 30)
	maxID := r.PickInt(t, t+2, 20, 20, 24, 40, 64)
	if maxID < t {
		maxID = t
	}
	p := r.Perm(maxID)
	ids := make([]int, t)
	for i := 0; i < t; i++ {
		ids[i] = p[i] + 1
	}
	sort.Ints(ids)
	// polynomial of degree t-1
	coef := make([]*big.Int, t)
	for i := range coef {
		coef[i] = randScalar(r)
	}
	eval := func(x int64) *big.Int {
		acc := new(big.Int)
		for i := len(coef) - 1; i >= 0; i-- {
			acc.Mul(acc, big.NewInt(x))
			acc.Add(acc, coef[i])
			acc.Mod(acc, orderN)
		}
		return acc
	}
	groupKey := sc(coef[0]).Point()
	msg := r.Bytes(r.PickInt(0, 1, 32, 100))
	type mem struct {
		id        int
		x, d, e   tss.Scalar
		Y, D, E   tss.Point
		rho       tss.Scalar
		pubNonce  tss.Point
		privNonce tss.Scalar
		lam       tss.Scalar
		sig       tss.Signature
	}
	ms := make([]*mem, t)
	var pubDs, pubEs tss.Points
	for i, id := range ids {
		m := &mem{id: id, x: sc(eval(int64(id))), d: sc(randScalar(r)), e: sc(randScalar(r))}
		m.Y, m.D, m.E = m.x.Point(), m.d.Point(), m.e.Point()
		ms[i] = m
		pubDs = append(pubDs, m.D)
		pubEs = append(pubEs, m.E)
	}
	commitment, err := tss.ComputeCommitment(midsOf(ids), pubDs, pubEs)
	fx.Must(err)
	var nonces []tss.Point
	for _, m := range ms {
		m.rho, err = tss.ComputeOwnBindingFactor(tss.MemberID(m.id), msg, commitment)
		fx.Must(err)
		m.pubNonce, err = tss.ComputeOwnPubNonce(m.D, m.E, m.rho)
		fx.Must(err)
		m.privNonce, err = tss.ComputeOwnPrivNonce(m.d, m.e, m.rho)
		fx.Must(err)
		nonces = append(nonces, m.pubNonce)
	}
	groupNonce, err := tss.ComputeGroupPublicNonce(nonces...)
	fx.Must(err)
	var sigs []tss.Signature
	var members, outM []any
	allOk := true
	for _, m := range ms {
		m.lam, err = tss.ComputeLagrangeCoefficient(tss.MemberID(m.id), midsOf(ids))
		fx.Must(err)
		m.sig, err = tss.SignSigning(groupNonce, groupKey, msg, m.lam, m.privNonce, m.x)
		fx.Must(err)
		verr := tss.VerifySigningSignature(groupNonce, groupKey, msg, m.lam, m.sig, m.Y)
		ok := verr == nil && string(m.sig.R()) == string(m.pubNonce)
		allOk = allOk && ok
		sigs = append(sigs, m.sig)
		members = append(members, fx.M{"id": m.id, "x": hx(m.x), "d": hx(m.d), "e": hx(m.e), "Y": hx(m.Y), "D": hx(m.D), "E": hx(m.E)})
		outM = append(outM, fx.M{"rho": hx(m.rho), "pubNonce": hx(m.pubNonce), "lambda": hx(m.lam), "sigR": hx(m.sig.R()), "sigS": hx(m.sig.S()), "accepted": ok})
	}
	comb, err := tss.CombineSignatures(sigs...)
	fx.Must(err)
	gerr := tss.VerifyGroupSigningSignature(groupKey, msg, comb)
	// single-component corruptions of one member's partial signature
	v := ms[r.Intn(t)]
	other := sc(randScalar(r))
	var corr []any
	try := func(kind string, gn, gk tss.Point, data []byte, lam tss.Scalar, sig tss.Signature, Y tss.Point, assigned tss.Point) {
		e := tss.VerifySigningSignature(gn, gk, data, lam, sig, Y)
		acc := e == nil && string(sig.R()) == string(assigned)
		corr = append(corr, fx.M{"kind": kind, "member": v.id, "groupNonce": hx(gn), "groupKey": hx(gk), "msg": hx(data), "lambda": hx(lam),
			"sigR": hx(sig.R()), "sigS": hx(sig.S()), "Y": hx(Y), "assigned": hx(assigned), "accepted": acc})
	}
	mk := func(R tss.Point, S tss.Scalar) tss.Signature {
		s, err := tss.NewSignatureFromComponents(R, S)
		fx.Must(err)
		return s
	}
	badS := sc(new(big.Int).Mod(new(big.Int).Add(new(big.Int).SetBytes(v.sig.S()), big.NewInt(1)), orderN))
	try("scalar+1", groupNonce, groupKey, msg, v.lam, mk(v.sig.R(), badS), v.Y, v.pubNonce)
	try("otherR", groupNonce, groupKey, msg, v.lam, mk(other.Point(), v.sig.S()), v.Y, v.pubNonce)
	// the response for the NEGATED nonce under the assigned nonce point: z' = z - 2k, so z'·G - c·λ·Y = -R (same x, other y)
	negS := sc(new(big.Int).Mod(new(big.Int).Sub(new(big.Int).SetBytes(v.sig.S()), new(big.Int).Lsh(new(big.Int).SetBytes(v.privNonce), 1)), orderN))
	try("negatedNonceResponse", groupNonce, groupKey, msg, v.lam, mk(v.sig.R(), negS), v.Y, v.pubNonce)
	// a self-consistent signature made with a fresh nonce instead of the assigned one
	fresh, err := tss.SignSigning(groupNonce, groupKey, msg, v.lam, other, v.x)
	fx.Must(err)
	try("freshNonce", groupNonce, groupKey, msg, v.lam, fresh, v.Y, v.pubNonce)
	try("otherSignerKey", groupNonce, groupKey, msg, v.lam, v.sig, other.Point(), v.pubNonce)
	try("otherMessage", groupNonce, groupKey, append([]byte{1}, msg...), v.lam, v.sig, v.Y, v.pubNonce)
	if t > 1 {
		// the coefficient of another committee (drop one other member)
		var ids2 []int
		dropped := false
		for _, id := range ids {
			if !dropped && id != v.id {
				dropped = true
				continue
			}
			ids2 = append(ids2, id)
		}
		lam2, err := tss.ComputeLagrangeCoefficient(tss.MemberID(v.id), midsOf(ids2))
		fx.Must(err)
		try("otherCommittee", groupNonce, groupKey, msg, lam2, v.sig, v.Y, v.pubNonce)
	}
	try("otherGroupNonce", other.Point(), groupKey, msg, v.lam, v.sig, v.Y, v.pubNonce)
	tr.Op(fx.M{"op": "flow", "t": t, "ids": ids, "msg": hx(msg), "groupKey": hx(groupKey), "members": members,
		"out": fx.M{"members": outM, "groupNonce": hx(groupNonce), "combR": hx(comb.R()), "combS": hx(comb.S()), "groupVerifies": gerr == nil, "allAccepted": allOk, "corruptions": corr}})
}

// ---- the chain: SubmitSignature / end-block on a DKG-built group -------------------------------------------
func opChain(app *fx.App, tr *fx.Trace, r *fx.Rng, caseNo int) {
	ctx, _ := app.Ctx.CacheContext()
	n := r.Range(1, 4)
	t := r.Range(1, n)
	g, err := tssfx.NewGroupWith(app, ctx, tssfx.NewAccounts(int64(caseNo)*11+5, n), uint64(t), bandtsstypes.ModuleName)
	fx.Must(err)
	tk := app.TSSKeeper
	tms := tsskeeper.NewMsgServerImpl(tk)
	for id := 1; id <= n; id++ {
		_, err := tms.SubmitDEs(ctx, &tsstypes.MsgSubmitDEs{DEs: g.NewDEs(id, 3), Sender: g.Addr(id).String()})
		fx.Must(err)
	}
	content := tsstypes.NewTextSignatureOrder(r.Bytes(r.Range(0, 40)))
	orig := tsstypes.NewDirectOriginator(ctx.ChainID(), g.Addr(1).String(), "")
	sid, err := tk.RequestSigning(ctx, g.GroupID, &orig, content)
	fx.Must(err)
	signing, err := tk.GetSigning(ctx, sid)
	fx.Must(err)
	sa, err := tk.GetSigningAttempt(ctx, sid, signing.CurrentAttempt)
	fx.Must(err)
	var assigned []any
	for _, am := range sa.AssignedMembers {
		assigned = append(assigned, fx.M{"id": uint64(am.MemberID), "Y": hx(am.PubKey), "D": hx(am.PubD), "E": hx(am.PubE), "rho": hx(am.BindingFactor), "pubNonce": hx(am.PubNonce)})
	}
	var subs []any
	submit := func(kind string, mid tss.MemberID, sig tss.Signature, signer string) string {
		msg := tsstypes.NewMsgSubmitSignature(sid, mid, sig, signer)
		e := fx.Try(msg.ValidateBasic)
		if e == "" {
			e = fx.Atomically(ctx, func(c sdk.Context) error { _, err := tms.SubmitSignature(c, msg); return err })
		}
		subs = append(subs, fx.M{"kind": kind, "member": uint64(mid), "sigR": hx(sig.R()), "sigS": hx(sig.S()), "err": e})
		return e
	}
	mk := func(R tss.Point, S tss.Scalar) tss.Signature {
		s, err := tss.NewSignatureFromComponents(R, S)
		fx.Must(err)
		return s
	}
	for _, am := range sa.AssignedMembers {
		good, err := g.Sign(ctx, tk, sid, am.MemberID)
		fx.Must(err)
		other := sc(randScalar(r))
		if r.Chance(2, 3) {
			badS := sc(new(big.Int).Mod(new(big.Int).Add(new(big.Int).SetBytes(good.S()), big.NewInt(1)), orderN))
			submit("scalar+1", am.MemberID, mk(good.R(), badS), am.Address)
			submit("otherR", am.MemberID, mk(other.Point(), good.S()), am.Address)
			// self-consistent under a fresh nonce
			lam, err := tss.ComputeLagrangeCoefficient(am.MemberID, tsstypes.AssignedMembers(sa.AssignedMembers).MemberIDs())
			fx.Must(err)
			fresh, err := tss.SignSigning(signing.GroupPubNonce, signing.GroupPubKey, signing.Message, lam, other, g.OwnPrivKeys[am.MemberID-1])
			fx.Must(err)
			submit("freshNonce", am.MemberID, fresh, am.Address)
			// another member's valid signature under this member id
			for _, o := range sa.AssignedMembers {
				if o.MemberID != am.MemberID {
					os, err := g.Sign(ctx, tk, sid, o.MemberID)
					fx.Must(err)
					submit("otherMembersSignature", am.MemberID, os, am.Address)
					break
				}
			}
			if n > 1 {
				submit("wrongSigner", am.MemberID, good, g.Addr(int(am.MemberID)%n+1).String())
			}
			// the correct share with one byte too many: not a signature (aggregation could not parse it)
			submit("trailingByte", am.MemberID, append(append(tss.Signature{}, good...), 0), am.Address)
		}
		submit("correct", am.MemberID, good, am.Address)
		if r.Chance(1, 3) {
			submit("replay", am.MemberID, good, am.Address)
		}
	}
	fx.Must(tssmod.EndBlocker(ctx, tk))
	final, err := tk.GetSigning(ctx, sid)
	fx.Must(err)
	gv := false
	if final.Signature != nil {
		gv = tss.VerifyGroupSigningSignature(final.GroupPubKey, final.Message, final.Signature) == nil
	}
	tr.Op(fx.M{"op": "chain", "n": n, "t": t, "msg": hx(signing.Message), "groupKey": hx(signing.GroupPubKey), "groupNonce": hx(signing.GroupPubNonce), "assigned": assigned,
		"out": fx.M{"subs": subs, "status": int(final.Status), "sigR": hx(final.Signature.R()), "sigS": hx(final.Signature.S()), "groupVerifies": gv}})
}

func main() {
	a := fx.ParseArgs()
	tr := fx.NewTrace(a.Out)
	r := fx.NewRng(a.Seed)
	switch a.Mode {
	case "subsets":
		n := a.Cases
		if n == 0 {
			n = 10
		}
		sweepLagrange(tr, n)
	case "hunt":
		n := a.Cases
		if n == 0 || n > 22 {
			n = 20
		}
		huntLagrange(tr, n)
	default:
		app := fx.NewApp()
		defer app.Close()
		n := a.Cases
		if n == 0 {
			n = 60
		}
		for i := 0; i < n; i++ {
			tr.Reset(nil)
			for k := 0; k < 6; k++ {
				ids := randIDs(r)
				mid := ids[r.Intn(len(ids))]
				if r.Chance(1, 15) {
					mid = r.Range(1, 50)
				}
				opLagrange(tr, mid, ids)
			}
			opFlow(tr, r)
			if i%3 == 0 {
				opChain(app, tr, r, i)
			}
		}
	}
	tr.Close()
	tr.WriteStats(a.Stats, nil)
}
