// tss: correspondence harness for C05 / C10 (see internal/tsscase).
package main

import (
	"verifharness/internal/fx"
	"verifharness/internal/tsscase"
)

func main() {
	a := fx.ParseArgs()
	app := fx.NewApp()
	defer app.Close()
	tr := fx.NewTrace(a.Out)
	n := a.Cases
	if n == 0 {
		n = 150
	}
	r := fx.NewRng(a.Seed)
	for i := 0; i < n; i++ {
		tsscase.RunCase(app, tr, r.Fork())
	}
	tr.Close()
	tr.WriteStats(a.Stats, nil)
}
